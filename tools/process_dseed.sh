#!/bin/bash
# usage: tools/process_dseed.sh <out dir e.g. /tmp/sd_out/C05> <seed id e.g. C05d> <worktree with _build>
# Imports a sub-agent's deliverables into seeded/<id>/, confirms them (confirm_seed.sh) and runs the property's quick
# check against the patch in the scratch worktree /tmp/mut (try_seed.sh via run_all_seeds.sh).
set -u
SRC=$1; ID=$2; WT=$3
cd /verif
mkdir -p seeded/$ID
cp $SRC/patch.diff $SRC/demo.cc $SRC/build_demo.sh $SRC/meta.json seeded/$ID/ || exit 9
chmod +x seeded/$ID/build_demo.sh
tools/confirm_seed.sh $ID $WT
rm -f seeded/$ID/demo
tools/run_all_seeds.sh $ID
tail -1 seeded/results.txt
