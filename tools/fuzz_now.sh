#!/bin/bash
# usage: tools/fuzz_now.sh <PROP> <seconds> [workers]  - ad-hoc libFuzzer campaign (development aid); artifacts in /tmp/fz/art
PROP=$1; SECS=$2; W=${3:-16}
mkdir -p /tmp/fz/art; rm -f /tmp/fz/art/*
export ASAN_OPTIONS=detect_leaks=1:allocator_may_return_null=1:max_allocation_size_mb=3000 UBSAN_OPTIONS=halt_on_error=1:print_stacktrace=1 VERIF_PROP=$PROP
for i in $(seq 1 $W); do
  mkdir -p /tmp/fz/c$i
  /verif/build/san/bin/dec_fuzz /tmp/fz/c$i /tmp/seeds1 /verif/corpus/legacy -max_total_time=$SECS -timeout=25 -rss_limit_mb=6000 -max_len=16384 -seed=$((1000+i)) -artifact_prefix=/tmp/fz/art/w$i- > /tmp/fz/w$i.log 2>&1 &
done
wait
ls /tmp/fz/art | head -40
for f in /tmp/fz/w*.log; do grep -h -E "runtime error|ERROR: AddressSanitizer|VERIF-VIOLATION|ERROR: libFuzzer" $f | head -2; done | sed -E 's/0x[0-9a-f]+/0x/g' | cut -c1-220 | sort | uniq -c | sort -rn | head -20
