import json,sys
pid=sys.argv[1]
single=len(sys.argv)>2 and sys.argv[2]=='single'
props={json.loads(l)['id']:json.loads(l) for l in open('/verif/properties.jsonl')}
p=props[pid]
print(f"""You are helping test a verification framework for the C++ library google/draco (3D mesh / point-cloud compression). Your job is to act as a realistic *bug seeder*.

Your private scratch git worktree of the repository is at /tmp/seed_{pid} (it is a `git worktree` of /repo, at the pinned commit). Work ONLY inside /tmp/seed_{pid} and write your deliverables to /tmp/seed_out/{pid}/. Do NOT modify /repo, and do NOT read or touch anything under /verif (your work must be independent of it). No network is available.

## The property you must break

Title: {p['title']}

Statement: {p['statement']}

Quantifier (the inputs/histories it ranges over): {p['quantifier']['text']}

Source files the property is anchored in: {', '.join(p['anchors']['files'])}

## What to produce

Produce TWO independent, different changes (call them `a` and `b`) to draco's library source (under src/draco, not tests, not tools unless the property is about tools) such that each change, on its own:
 1. still compiles;
 2. still passes the existing unit-test suite (same results as the unchanged tree, see below);
 3. makes the property above FALSE for some inputs / option combinations / histories;
 4. needs something *specific* to manifest - an unusual input, a particular option combination, a multi-step sequence of calls, a particular size threshold, two cooperating sites that each look fine alone, etc. - NOT something that ordinary use would expose at once (if nearly every encode/decode would break, the existing tests would catch it and it's not interesting). Think of the kind of subtle regression a real maintainer could introduce in a refactoring or "optimisation" and that would survive code review. The two changes should be in different parts of the code / different mechanisms.

For each change X in {{a, b}} deliver in /tmp/seed_out/{pid}/X/ :
 - `patch.diff`: output of `git diff` in the worktree (must apply cleanly with `git apply` to the pinned commit);
 - `demo.cc` (a small standalone C++ program using the draco API, exit code 0 = property holds, non-zero = property violated, printing what went wrong) plus `build_demo.sh` (a script taking the worktree path as $1 that compiles and runs the demo against the library built in $1/_build, e.g. `g++ -std=c++17 -I$1/src -I$1/_build demo.cc $1/_build/libdraco.a -o /tmp/seed_out/{pid}/X/demo && /tmp/seed_out/{pid}/X/demo`). The demo must FAIL with the change applied and PASS on the unchanged tree - verify both yourself;
 - `meta.json`: {{"property": "{pid}", "summary": "...one paragraph: what was changed and why it breaks the property...", "needs_to_manifest": "...what specific input/option/sequence is needed...", "files_changed": [...], "ran": ["commands you ran and their outcome"]}}.

## Building and testing (offline; everything needed is on disk)

```
cd /tmp/seed_{pid}
cmake -G Ninja -S . -B _build -DDRACO_TESTS=ON -DDRACO_GOOGLETEST_PATH=/repo/third_party/googletest -DCMAKE_BUILD_TYPE=RelWithDebInfo -DCMAKE_CXX_FLAGS=-Wno-error >/dev/null
ninja -C _build -j5 draco_tests draco_factory_tests draco_encoder draco_decoder libdraco.a      # use -j5, the machine is shared
cd _build && ./draco_tests 2>&1 | tail -15
```
On the UNCHANGED tree exactly two tests fail (`ObjDecoderTest.TestObjDecodingAll` and `ObjEncoderTest.TestObjEncodingAll`, because of files missing from testdata); all others pass. "Passing the existing tests" means: with your change the result is the same - those two fail, everything else passes. `./draco_factory_tests` must also still pass. Build draco_features.h lives in _build/draco/draco_features.h (hence -I$1/_build).

Work flow suggestion: first build the unchanged tree and run the tests once; read the anchored source files carefully; design change `a`; apply; rebuild (incremental); run the tests; write and run the demo with and without the change (`git stash` / `git stash pop`, or `git diff > patch.diff; git checkout -- .; ...; git apply patch.diff`); save deliverables; `git checkout -- .`; then do the same for `b`. Leave the worktree clean (no applied change) when you finish - but keep the _build directory.

Be careful that the demo really checks the *property as stated* (a user-visible behavioural consequence), not an implementation detail, and that on the unchanged tree it passes. Keep each patch small (a few lines). Do not add preprocessor guards; do not edit tests. In your final message, give a brief summary of the two changes and confirm the pass/fail results you observed.""")
