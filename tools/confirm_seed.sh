#!/bin/bash
# usage: tools/confirm_seed.sh <seed id e.g. C01a> <worktree with _build>
# Confirms: patch applies, builds, unit tests give the baseline result (only the 2 always-failing Obj tests fail),
# demo fails with the patch and passes without. Writes seeded/<id>/confirm.log and prints a summary line.
ID=$1; WT=$2; D=/verif/seeded/$ID; LOG=$D/confirm.log
exec 3>&1 >"$LOG" 2>&1
cd "$WT" || exit 9
git checkout -- . 
run_tests() { (cd _build && ./draco_tests 2>&1 | grep -E "^\[  (PASSED|FAILED)  \]" ; ./draco_factory_tests 2>&1 | grep -E "^\[  (PASSED|FAILED)  \]"); }
echo "== baseline build"; ninja -C _build -j8 draco_tests draco_factory_tests libdraco.a draco_encoder draco_decoder | tail -1
echo "== baseline demo"; bash $D/build_demo.sh $WT; BASE_DEMO=$?
echo "== apply"; git apply $D/patch.diff || { echo APPLY-FAILED; echo "$ID APPLY-FAILED" >&3; exit 1; }
ninja -C _build -j8 draco_tests draco_factory_tests libdraco.a draco_encoder draco_decoder | tail -1; BUILD=$?
echo "== tests with patch"; T=$(run_tests); echo "$T"
echo "== demo with patch"; bash $D/build_demo.sh $WT; MUT_DEMO=$?
git checkout -- .
ninja -C _build -j8 libdraco.a | tail -1
NFAIL=$(echo "$T" | grep -c "FAILED  \] ObjDecoderTest.TestObjDecodingAll\|FAILED  \] ObjEncoderTest.TestObjEncodingAll")
OTHERFAIL=$(echo "$T" | grep "FAILED  \]" | grep -v "TestObjDecodingAll\|TestObjEncodingAll\|tests, listed below" | wc -l)
echo "$ID base_demo_exit=$BASE_DEMO mutant_demo_exit=$MUT_DEMO expected_failing=$NFAIL other_failing=$OTHERFAIL" | tee /dev/fd/3
