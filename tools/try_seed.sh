#!/bin/bash
# usage: tools/try_seed.sh <patch.diff> <PROP> [tier]   - runs a check against a scratch worktree with the patch
# applied (never touches /repo). Output under /tmp/mutout/<name>/.
set -u
exec 9>/tmp/mut.lock; flock 9   # one mutant run at a time (shared scratch worktree and build dir)
PATCH=$(readlink -f "$1"); PROP=$2; TIER=${3:-quick}
WT=${MUT_WT:-/tmp/mut}
if [ ! -d "$WT" ]; then git -C /repo worktree add --detach "$WT" HEAD >/dev/null 2>&1; fi
git -C "$WT" checkout -q --detach $(git -C /repo rev-parse HEAD) 2>/dev/null
git -C "$WT" checkout -- . ; git -C "$WT" clean -fdq -e _build
git -C "$WT" apply "$PATCH" || { echo "patch does not apply"; exit 9; }
NAME=$(echo "$PATCH" | sed 's#/#_#g')
OUT=/tmp/mutout/$NAME; rm -rf "$OUT"; mkdir -p "$OUT"
VERIF_REPO=$WT VERIF_BUILD=${MUT_BUILD:-/tmp/vbuild2} VERIF_OUTDIR=$OUT python3 /verif/verif.py check "$PROP" --tier "$TIER"
RC=$?
git -C "$WT" checkout -- .
echo "exit=$RC"
exit $RC
