#!/usr/bin/env python3
"""Adds my own confirmation and detection results to seeded/<id>/meta.json (fields verif_confirmation, verif_detection)."""
import json, os, re
S = "/verif/seeded"
res = {}
if os.path.exists(os.path.join(S, "results.txt")):
    for l in open(os.path.join(S, "results.txt")):
        m = re.match(r"(\S+) vs (\S+): exit=(\d+) violations=(\d+) wall=(\d+)s (?:seed=(\d+) )?tree=(\S+) verif=(\S+) :: ?(.*)", l.strip())
        if m:
            res.setdefault(m.group(1), []).append(dict(check=m.group(2), exit=int(m.group(3)), violation_lines=int(m.group(4)),
                                                        wall_seconds=int(m.group(5)), verif_seed=int(m.group(6) or 1), repo_commit=m.group(7),
                                                        verif_commit=m.group(8), first_message=m.group(9)))
for d in sorted(os.listdir(S)):
    mp = os.path.join(S, d, "meta.json")
    if not os.path.exists(mp):
        continue
    m = json.load(open(mp))
    cl = os.path.join(S, d, "confirm.log")
    if os.path.exists(cl):
        last = open(cl, errors="replace").read().strip().splitlines()[-1]
        m["verif_confirmation"] = dict(how="tools/confirm_seed.sh in a scratch worktree at /repo HEAD: patch applies, library + tests + tools build, "
                                           "unit tests give the baseline result, demo passes without and fails with the patch",
                                       result=last)
    if d in res:
        m["verif_detection"] = dict(how="tools/try_seed.sh <patch> <property> (quick tier, VERIF_SEED default, scratch worktree + separate build dir)",
                                    runs=res[d], caught=any(r["exit"] == 1 and r["violation_lines"] > 0 for r in res[d]))
    json.dump(m, open(mp, "w"), indent=1)
print("annotated")
