#!/usr/bin/env python3
"""Regenerates MANIFEST.json from the table below (single source of truth for the registered checks)."""
import json, os, sys
sys.path.insert(0, os.path.join(os.path.dirname(os.path.abspath(__file__)), "..", "lib"))
V = "/verif"
CHECKS = {
 "C01": dict(engine="rapidcheck", technique="property-based testing (rapidcheck): generated mesh/point-cloud x option specs, encode->decode round trip against a reference model (bit-exact reference quantizer, canonical triangle multiset)",
   text="Generated-input search over geometry specs (topology classes incl. non-manifold / degenerate / duplicated / mirrored faces, seams, isolated points, 1..5 attributes of every data type and 1..8 components, identity and explicit maps, arbitrary unique ids) crossed with option specs (both encoder APIs, method, Edgebreaker sub-method, speeds 0..10, quantization 1..26 bits auto or explicit, forced prediction schemes, built-in compression, split-on-seams, compressed connectivity). Oracle: encode ok => decode ok; attribute set equal by unique id; sequential methods: point-by-point and face-by-face equality; kd-tree: point multiset; Edgebreaker: T_in minus degenerate <= T_dec <= T_in as multisets of oriented triangles with per-corner value keys; lossy values must be bit-equal to the harness's own float32 reference quantizer. ASan+UBSan on. Exploration: no claim beyond the generated cases.",
   note="Trusts rapidcheck, the sanitizer runtimes and OctahedronToolBox for the expected octahedral value (its accuracy is C07's business). Open known findings are excluded by construction and counted; cost caps (26 quantization bits, 2^21 integer magnitudes at quick tier) are listed in the evidence.",
   design="3/C01"),
 "C04": dict(engine="rapidcheck", technique="property-based testing (rapidcheck): per-value error bound |x'-x| <= step/2 + 8 half-ulps through a tag attribute, all coding methods",
   text="Every case carries >= 1 quantized float32 attribute (1..8 components, magnitudes 1e-6..1e9 with offsets, constant components, auto or explicit box, q up to 26) and a uint32 tag attribute that gives the input<->decoded correspondence under reordering methods. Oracle per decoded component: error <= half a step of the reference range plus the stated float32 allowance, value inside the box up to the allowance, and the declared parameters (read through the skip-transform decode) equal to the reference min/range/bits.",
   note="The allowance 8*2^-24*max(|x|,|min|,R) is derived in DESIGN.md; q 27..30 are reached only at transform level (see C04 evidence classes) because the entropy coder's cost grows with 2^q.",
   design="3/C04"),
 "C09": dict(engine="rapidcheck", technique="property-based testing (rapidcheck): reported num_encoded_points/faces compared with the decoded geometry",
   text="C01's generator weighted towards attribute seams on interior and boundary vertices, non-manifold vertices and edges, degenerate faces, isolated points, with tracking on, both encoder APIs, every method; oracle: reported counts == counts of the decoded geometry.",
   note="Known finding F12 (duplicate point ids) is excluded by construction while open.",
   design="3/C09"),
 "C10": dict(engine="rapidcheck", technique="property-based testing (rapidcheck): differential decode (ordinary vs skip-transform subsets) + described transform re-applied + reference dequantizer",
   text="Streams with >= 1 quantized attribute from the shared generator, all methods; each decoded normally and with the generated skip subset, the full subset and each single lossy type (thorough: all 32). Oracle: connectivity / point count / non-skipped attributes bit-identical; skipped transformed attributes keep their unique id, are integral, carry a transform description whose parameters equal the reference ones, and both the library's InverseTransformAttribute and the harness's own dequantizer reproduce the ordinary decode bit-exactly.",
   note="A plain integer attribute of a skipped type is handed out as its int32 working copy by the decoders; the check requires equal integers, id and no transform description for it (see DESIGN.md C10).",
   design="3/C10"),
 "C12": dict(engine="rapidcheck", technique="property-based testing (rapidcheck): metamorphic pair of separately encoded geometries sharing coordinates under one explicit quantization box",
   text="Pairs (A,B): A from the shared generator with one explicitly quantized float attribute, B an independently generated mesh or point cloud containing a subset of A's coordinates plus private ones inside the same box, encoded with independent method, speed, API and prediction. Oracle: every shared coordinate decodes to bit-identical floats on both sides, lies on the grid origin + k*range/(2^bits-1) and within half a step of the original.",
   note="Explicit parameters are fixed points of the options layer's text round trip (the API stores floats with 6 decimals); see DESIGN.md.",
   design="3/C12"),
 "C13": dict(engine="enumerator + rapidcheck", category="exploration", technique="exhaustive enumeration of all lists of <= 3 (thorough 4) triangles over 5 ids + property-based testing (rapidcheck) of larger lists, invariant oracle on the constructed corner table",
   text="Every ordered list of 1..3 triangles over vertex ids 0..4 (1,968,875 lists; thorough adds all 244 M lists of 4) and rapidcheck lists of up to 200/400 triangles built by reusing edges in both orientations, repeating / mirroring faces, degenerate faces, sparse ids. Oracle after CornerTable::Create: opposite relation symmetric, across different faces, over an oppositely oriented shared edge (input ids and table vertices); SwingRight from LeftMostCorner enumerates exactly the corners of the vertex once, SwingLeft inverse, boundary flag; VertexParent(Vertex(c)) == input id; degenerate faces unlinked; degenerate / isolated / new-vertex counters consistent; and the same style of invariants for a MeshAttributeCornerTable built from a generated per-corner attribute (seams symmetric and only where the attribute entries differ, attribute vertices refine base vertices).",
   note="Exhaustive for the enumerated sub-space only. Trusts the harness's restatement of the invariants (written from the property text, validated on the unchanged tree over the full enumeration).",
   design="3/C13"),
 "C16": dict(engine="enumerator + rapidcheck", technique="exhaustive enumeration (small wrap ranges, octahedral grids q<=5/6) + property-based testing (rapidcheck) with boundary-biased 32-bit tuples; inverse oracle dec(pred, enc(orig, pred)) == orig and correction interval",
   text="Wrap transform: all ranges inside [-6,6] x all originals x predictions in [-40,40] exhaustively; rapidcheck tuples with ranges at INT32_MIN/MAX/0, widths 0, 1, 2, 2^31-2 and predictions anywhere in int32, 1..4 components, decoder initialised through EncodeTransformData->DecodeTransformData. Canonicalized octahedral transform: every pair of canonical (s,t) for q = 2..5 (thorough 6), rapidcheck pairs for q up to 30 biased to corners, centre and diamond edges. Oracle: exact inverse, corrections inside [-N/2, N/2] resp. [0, 2^q-2], UBSan clean.",
   note="Canonical coordinates are the fixed points of OctahedronToolBox::CanonicalizeOctahedralCoords.",
   design="3/C16"),
 "C17": dict(engine="enumerator + rapidcheck", technique="exhaustive 8/16-bit varints and zig-zag maps + property-based testing (rapidcheck) of write/read operation sequences over EncoderBuffer/DecoderBuffer and the five bit coders, mirrored-read oracle",
   text="All values of uint8/int8/uint16/int16 through EncodeVarint/DecodeVarint and the zig-zag maps (bijection); every bit-field width 0..32 and every coder x width; rapidcheck sequences of scalars, byte blocks, varints (boundary-biased 32/64-bit), bit-mode regions with/without stored size and slack, and runs of the rANS / adaptive rANS / direct / folded / symbol bit coders with explicit and bulk biased bit sequences (bias 0..1) appended to one buffer. Oracle: the mirrored read sequence returns exactly the written values and ends at remaining_size()==0; further reads fail or give zero bits; the buffer is an exact-size heap block so ASan sees any over-read.",
   note="SymbolBitEncoder widths are capped at 20 (24) bits: it feeds EncodeSymbols, whose cost grows with the largest value (finding E1 beyond 2^31).",
   design="3/C17"),
 "C08": dict(engine="rapidcheck", technique="property-based testing (rapidcheck): encode->decode round trip + consumed-size oracle over generated symbol arrays",
   text="Generated-input search: 16 rapidcheck shards draw symbol arrays over length / component / distribution / magnitude / forced-scheme / compression-level classes, encode them with EncodeSymbols, and require an exact decode, decoded_size == encoded size, a second back-to-back block and a random tail found at the right offset; ASan+UBSan stay on. Exploration, not proof: it shows absence of violations on the generated cases only.",
   note="Trusts rapidcheck's generators/shrinker and the sanitizer runtimes. Magnitudes above 2^22 (quick) / 2^27 (thorough) are capped because the encoder allocates O(max value) counters; lengths up to 5000 (quick) / 1e5 (thorough).",
   design="3/C08"),
}
NA = []
def main():
    props = [json.loads(l)["id"] for l in open(os.path.join(V, "properties.jsonl"))]
    checks = []
    for pid in props:
        if pid not in CHECKS:
            continue
        c = CHECKS[pid]
        checks.append(dict(property_id=pid,
            quick_cmd="python3 verif.py check %s --tier quick" % pid,
            thorough_cmd="python3 verif.py check %s --tier thorough" % pid,
            evidence_file="/verif/evidence/%s.json" % pid,
            replay_cmd_template="python3 verif.py replay %s {path}" % pid,
            engine=c["engine"],
            level_claimed=dict(category=c.get("category", "exploration"), text=c["text"], design_ref="DESIGN.md section " + c["design"]),
            level_note=c["note"], technique=c["technique"]))
    na = [dict(property_id=p, reason=r) for p, r in NA]
    claimed = set(CHECKS)
    for pid in props:
        if pid not in claimed and pid not in [p for p, _ in NA]:
            na.append(dict(property_id=pid, reason="check not built yet in this revision of /verif (planned, see DESIGN.md section 3); nothing is claimed for it"))
    m = dict(version=1,
        setup_cmd="python3 verif.py setup",
        hooks=dict(guard="DRACO_VERIF", enable="verif.py compiles /repo/src with -DDRACO_VERIF (configs san/tsan/plain, see lib/vbuild.py)",
                   baseline_off_cmd="cmake --build /repo/_build && cd /repo/_build && ./draco_tests && ./draco_factory_tests",
                   source_commits=HOOK_COMMITS, add_only=True),
        engines=[dict(name="rapidcheck", path="/usr/include/rapidcheck.h", kind_free_text="property-based testing library (C++), sharded x16 by verif.py"),
                 dict(name="libFuzzer", path="clang++ -fsanitize=fuzzer", kind_free_text="coverage-guided fuzzing with ASan+UBSan"),
                 dict(name="enumerators", path="/verif/src/enum", kind_free_text="exhaustive enumeration of the finite sub-spaces named by the properties")],
        checks=checks, not_applicable=na,
        notes="Driver: /verif/verif.py (lib/vbuild.py builds /repo's working tree by content hash; lib/checks.py holds the checks). Known findings: /verif/known_findings.json. Seeded changes: /verif/seeded/.")
    json.dump(m, open(os.path.join(V, "MANIFEST.json"), "w"), indent=1)
HOOK_COMMITS = []
if __name__ == "__main__":
    main()
