#!/usr/bin/env python3
"""Regenerates MANIFEST.json from the table below (single source of truth for the registered checks)."""
import json, os, sys
sys.path.insert(0, os.path.join(os.path.dirname(os.path.abspath(__file__)), "..", "lib"))
V = "/verif"
CHECKS = {
 "C01": dict(engine="rapidcheck", technique="property-based testing (rapidcheck): generated mesh/point-cloud x option specs, encode->decode round trip against a reference model (bit-exact reference quantizer, canonical triangle multiset)",
   text="Generated-input search over geometry specs (topology classes incl. non-manifold / degenerate / duplicated / mirrored faces, seams, isolated points, 1..5 attributes of every data type and 1..8 components, identity and explicit maps, arbitrary unique ids) crossed with option specs (both encoder APIs, method, Edgebreaker sub-method, speeds 0..10, quantization 1..26 bits auto or explicit, forced prediction schemes, built-in compression, split-on-seams, compressed connectivity). Oracle: encode ok => decode ok; attribute set equal by unique id; sequential methods: point-by-point and face-by-face equality; kd-tree: point multiset; Edgebreaker: T_in minus degenerate <= T_dec <= T_in as multisets of oriented triangles with per-corner value keys; lossy values must be bit-equal to the harness's own float32 reference quantizer. ASan+UBSan on. Exploration: no claim beyond the generated cases.",
   note="Trusts rapidcheck, the sanitizer runtimes and OctahedronToolBox for the expected octahedral value (its accuracy is C07's business). Open known findings are excluded by construction and counted; cost caps (26 quantization bits, 2^21 integer magnitudes at quick tier) are listed in the evidence.",
   design="3/C01"),
 "C04": dict(engine="rapidcheck", technique="property-based testing (rapidcheck): per-value error bound |x'-x| <= step/2 + 8 half-ulps through a tag attribute, all coding methods",
   text="Every case carries >= 1 quantized float32 attribute (1..8 components, magnitudes 1e-6..1e9 with offsets, constant components, auto or explicit box, q up to 26) and a uint32 tag attribute that gives the input<->decoded correspondence under reordering methods. Oracle per decoded component: error <= half a step of the reference range plus the stated float32 allowance, value inside the box up to the allowance, and the declared parameters (read through the skip-transform decode) equal to the reference min/range/bits.",
   note="The allowance 8*2^-24*max(|x|,|min|,R) is derived in DESIGN.md; q 27..30 are reached only at transform level (see C04 evidence classes) because the entropy coder's cost grows with 2^q.",
   design="3/C04"),
 "C09": dict(engine="rapidcheck", technique="property-based testing (rapidcheck): reported num_encoded_points/faces compared with the decoded geometry",
   text="C01's generator weighted towards attribute seams on interior and boundary vertices, non-manifold vertices and edges, degenerate faces, isolated points, with tracking on, both encoder APIs, every method; oracle: reported counts == counts of the decoded geometry.",
   note="Known finding F12 (duplicate point ids) is excluded by construction while open.",
   design="3/C09"),
 "C10": dict(engine="rapidcheck", technique="property-based testing (rapidcheck): differential decode (ordinary vs skip-transform subsets) + described transform re-applied + reference dequantizer",
   text="Streams with >= 1 quantized attribute from the shared generator, all methods; each decoded normally and with the generated skip subset, the full subset and each single lossy type (thorough: all 32). Oracle: connectivity / point count / non-skipped attributes bit-identical; skipped transformed attributes keep their unique id, are integral, carry a transform description whose parameters equal the reference ones, and both the library's InverseTransformAttribute and the harness's own dequantizer reproduce the ordinary decode bit-exactly.",
   note="A plain integer attribute of a skipped type is handed out as its int32 working copy by the decoders; the check requires equal integers, id and no transform description for it (see DESIGN.md C10).",
   design="3/C10"),
 "C12": dict(engine="rapidcheck", technique="property-based testing (rapidcheck): metamorphic pair of separately encoded geometries sharing coordinates under one explicit quantization box",
   text="Pairs (A,B): A from the shared generator with one explicitly quantized float attribute, B an independently generated mesh or point cloud containing a subset of A's coordinates plus private ones inside the same box, encoded with independent method, speed, API and prediction. Oracle: every shared coordinate decodes to bit-identical floats on both sides, lies on the grid origin + k*range/(2^bits-1) and within half a step of the original.",
   note="Explicit parameters are fixed points of the options layer's text round trip (the API stores floats with 6 decimals); see DESIGN.md.",
   design="3/C12"),
 "C08": dict(engine="rapidcheck", technique="property-based testing (rapidcheck): encode->decode round trip + consumed-size oracle over generated symbol arrays",
   text="Generated-input search: 16 rapidcheck shards draw symbol arrays over length / component / distribution / magnitude / forced-scheme / compression-level classes, encode them with EncodeSymbols, and require an exact decode, decoded_size == encoded size, a second back-to-back block and a random tail found at the right offset; ASan+UBSan stay on. Exploration, not proof: it shows absence of violations on the generated cases only.",
   note="Trusts rapidcheck's generators/shrinker and the sanitizer runtimes. Magnitudes above 2^22 (quick) / 2^27 (thorough) are capped because the encoder allocates O(max value) counters; lengths up to 5000 (quick) / 1e5 (thorough).",
   design="3/C08"),
}
NA = []
def main():
    props = [json.loads(l)["id"] for l in open(os.path.join(V, "properties.jsonl"))]
    checks = []
    for pid in props:
        if pid not in CHECKS:
            continue
        c = CHECKS[pid]
        checks.append(dict(property_id=pid,
            quick_cmd="python3 verif.py check %s --tier quick" % pid,
            thorough_cmd="python3 verif.py check %s --tier thorough" % pid,
            evidence_file="/verif/evidence/%s.json" % pid,
            replay_cmd_template="python3 verif.py replay %s {path}" % pid,
            engine=c["engine"],
            level_claimed=dict(category=c.get("category", "exploration"), text=c["text"], design_ref="DESIGN.md section " + c["design"]),
            level_note=c["note"], technique=c["technique"]))
    na = [dict(property_id=p, reason=r) for p, r in NA]
    claimed = set(CHECKS)
    for pid in props:
        if pid not in claimed and pid not in [p for p, _ in NA]:
            na.append(dict(property_id=pid, reason="check not built yet in this revision of /verif (planned, see DESIGN.md section 3); nothing is claimed for it"))
    m = dict(version=1,
        setup_cmd="python3 verif.py setup",
        hooks=dict(guard="DRACO_VERIF", enable="verif.py compiles /repo/src with -DDRACO_VERIF (configs san/tsan/plain, see lib/vbuild.py)",
                   baseline_off_cmd="cmake --build /repo/_build && cd /repo/_build && ./draco_tests && ./draco_factory_tests",
                   source_commits=HOOK_COMMITS, add_only=True),
        engines=[dict(name="rapidcheck", path="/usr/include/rapidcheck.h", kind_free_text="property-based testing library (C++), sharded x16 by verif.py"),
                 dict(name="libFuzzer", path="clang++ -fsanitize=fuzzer", kind_free_text="coverage-guided fuzzing with ASan+UBSan"),
                 dict(name="enumerators", path="/verif/src/enum", kind_free_text="exhaustive enumeration of the finite sub-spaces named by the properties")],
        checks=checks, not_applicable=na,
        notes="Driver: /verif/verif.py (lib/vbuild.py builds /repo's working tree by content hash; lib/checks.py holds the checks). Known findings: /verif/known_findings.json. Seeded changes: /verif/seeded/.")
    json.dump(m, open(os.path.join(V, "MANIFEST.json"), "w"), indent=1)
HOOK_COMMITS = []
if __name__ == "__main__":
    main()
