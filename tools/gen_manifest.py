#!/usr/bin/env python3
"""Regenerates MANIFEST.json from the table below (single source of truth for the registered checks)."""
import json, os, sys
sys.path.insert(0, os.path.join(os.path.dirname(os.path.abspath(__file__)), "..", "lib"))
V = "/verif"
CHECKS = {
 "C01": dict(engine="rapidcheck", technique="property-based testing (rapidcheck): generated mesh/point-cloud x option specs, encode->decode round trip against a reference model (bit-exact reference quantizer, canonical triangle multiset)",
   text="Generated-input search over geometry specs (topology classes incl. non-manifold / degenerate / duplicated / mirrored faces, seams, isolated points, 1..5 attributes of every data type and 1..8 components, identity and explicit maps, arbitrary unique ids) crossed with option specs (both encoder APIs, method, Edgebreaker sub-method, speeds 0..10, quantization 1..26 bits auto or explicit, forced prediction schemes, built-in compression, split-on-seams, compressed connectivity). Oracle: encode ok => decode ok; attribute set equal by unique id; sequential methods: point-by-point and face-by-face equality; kd-tree: point multiset; Edgebreaker: T_in minus degenerate <= T_dec <= T_in as multisets of oriented triangles with per-corner value keys; lossy values must be bit-equal to the harness's own float32 reference quantizer. ASan+UBSan on. Exploration: no claim beyond the generated cases.",
   note="Trusts rapidcheck, the sanitizer runtimes and OctahedronToolBox for the expected octahedral value (its accuracy is C07's business). Open known findings are excluded by construction and counted; cost caps (26 quantization bits, 2^21 integer magnitudes at quick tier) are listed in the evidence.",
   design="3/C01"),
 "C02": dict(engine="enumerator + libFuzzer", category="fault_enumeration", technique="fault enumeration (truncations and single-site corruptions of valid streams) + coverage-guided fuzzing (libFuzzer) with ASan/UBSan and an in-target oracle (Status returned, no escaping exception, input bytes untouched, watchdog)",
   text="Seeds: the 25 legacy testdata streams (bitstream 1.1..2.3) plus ~260 small streams regenerated from the geometry generator with the current encoder, one per encoder code-path class. Every truncation and, at every offset, the byte / 32-bit / varint patterns, count rewrites, header and version rewrites, splices and multi-site corruptions are decoded through all entry points (DecodeMeshFromBuffer, DecodePointCloudFromBuffer, both DecodeBufferToGeometry overloads, KeyframeAnimationDecoder, GetEncodedGeometryType) with rotating skip-transform masks; then 16 libFuzzer workers (12 seeded, 4 from an empty corpus). Oracle inside the target: sanitizers fatal, the call returns a Status, no exception other than a bad_alloc justified by declared counts, memcmp of the input copy, per-input watchdog / libFuzzer timeout re-run in isolation.",
   note="Absence is not shown: complete only for the listed single-site patterns on these seeds (dense up to a per-seed bound for long or slow seeds, sampled beyond). Entropy-coded semantic tampering is reached only through fuzzing in this revision. DRACO_DCHECKs are compiled out as in release builds.",
   design="3/C02"),
 "C03": dict(engine="enumerator + libFuzzer", category="fault_enumeration", technique="same generated corruptions as C02; oracle on every decode that returns ok: structural validity predicate + reading the geometry through the public accessors under ASan",
   text="Whenever any decode call on a valid or corrupted stream returns ok: every face index < num_points; per attribute >= 1 component, valid data type, stride == components * type size, storage >= size * stride, explicit map of num_points entries or identity map with size >= num_points, every mapped index < size; then GetMappedValue / ConvertValue for every point, CornerToPointId for every corner, CreateCornerTableFromPositionAttribute, transform-data parsing, bounding box and metadata are exercised under ASan so that a gap in the predicate still surfaces.",
   note="Same seeds, patterns and limits as C02. Hundreds of thousands of corrupted inputs decode ok per run (counted as non-trivial).",
   design="3/C03"),
 "C05": dict(engine="frozen corpus replay", technique="regression oracle over a frozen corpus: ordered digest of every decoded stream against committed goldens, version-gate rewrites, independent comparison of legacy streams with their source OBJ",
   text="25 legacy streams shipped in testdata (writers 0.9.1 .. 2.3) and 1238 streams frozen from this tree's encoder (one or two per encoder code-path class over methods, speeds, prediction schemes, attribute layouts) are decoded through two entry points; the ordered digest (attribute descriptors, points, faces, values, metadata, in decoded order) must equal corpus/golden.txt. Each header is rewritten to 10 unsupported versions that must be refused with UNKNOWN_VERSION. The legacy test_nm.obj streams are also compared, as quantized-integer triangle multisets, with testdata/test_nm.obj quantized by the declared parameters.",
   note="Decides the present tree against frozen bytes; the technique cannot quantify over future histories. The goldens of the frozen part are what the freezing revision decoded (after the recorded fixes). Append-only corpus.",
   design="3/C05"),
 "C06": dict(engine="rapidcheck + process runs", technique="stateful property-based testing (rapidcheck): generated call histories on long-lived objects compared with fresh objects; metamorphic trailing-bytes relation; differential runs across processes / ASLR / allocator fills",
   text="Histories of 4..18 operations (configure, encode with and without clearing the buffer, Reset, sticky decoder options, decodes of earlier streams, failing encodes) over a pool of geometries on one Encoder, one ExpertEncoder per geometry, one Decoder and two EncoderBuffers: every output must equal byte-for-byte (ordered digest for decodes) the same call on fresh objects; every stream is also decoded with 1..64 trailing bytes (same geometry, exactly the stream consumed). A fixed-seed list of cases is run in 6 processes (default twice, ASLR off, MALLOC_PERTURB_ 85/170/255; thorough: valgrind memcheck) whose digest lists must be identical.",
   note="Uninitialised bytes are attacked through allocator perturbation and valgrind only (MSan is unusable in this image).",
   design="3/C06"),
 "C07": dict(engine="rapidcheck", technique="property-based testing (rapidcheck): angle / unit-length / range oracle on generated normals, at transform level (q 2..30) and through the full pipeline",
   text="Vectors: uniform directions, 1e-7..1e-2 neighbourhoods of the axes, octahedron edges, face centres and the hemisphere boundary, lengths 1e-5..1e30, degenerate class. (a) AttributeOctahedronTransform::TransformAttribute -> InverseTransformAttribute for q = 2..30; (b) meshes / point clouds from the shared generator with a quantized NORMAL attribute, q = 2..22, sequential and Edgebreaker, difference and geometric-normal prediction, correspondence through a tag attribute. Oracle: finite, |len-1| <= 1e-6, angle (atan2 of cross and dot in double) <= 3*(2/(2^q-2)) + 2e-6, octahedral integers inside the q-bit square and canonical, equal inputs give equal outputs; for the degenerate class (abs-sum <= 1e-6, the encoder's documented threshold) only finite and unit-or-zero.",
   note="Pipeline quantization above 22 (24) bits is not generated: the symbol coder's cost grows with 2^q; the transform-level part covers 2..30.",
   design="3/C07"),
 "C11": dict(engine="rapidcheck", technique="property-based testing (rapidcheck): generated metadata trees, encode->decode compared with an in-harness model of the container",
   text="Trees of depth 0..8 with 0..12 (rarely 300) entries and 0..4 sub-metadata per node, names of 0..255 arbitrary bytes (classified: 256..400), values of 0..64 KiB through every typed setter, duplicate names, names shared by an entry and a sub-metadata, 0..4 attribute metadata keyed by existing and non-existing unique ids (both attachment APIs), on a mesh and a point cloud under all four methods. Oracle: encode ok => decode ok and the decoded tree equals the model (names, byte-exact values, nesting, attribute metadata order and ids); a name over 255 bytes anywhere must make the encoder fail.",
   note="The carrying geometry is a fixed 6-point mesh / cloud.",
   design="3/C11"),
 "C14": dict(engine="rapidcheck", technique="property-based testing (rapidcheck): model-based oracle (multiset / sequence of triangles with per-corner value bytes) for builder, de-duplication, clean-up and strip generation",
   text="Geometry specs from the shared generator (all attribute types, repeated values, -0.0 / NaN patterns, seams, degenerate / duplicate / non-manifold faces, isolated points) drive TriangleSoupMeshBuilder (incl. per-face attributes), PointCloudBuilder (dedup on/off), DeduplicateAttributeValues / DeduplicatePointIds, MeshCleanup with each of the 8 option subsets and MeshStripifier in both output modes. Oracles: per-corner value bytes of every face unchanged; after dedup no two bit-identical values and no two points with equal value indices, second pass changes nothing; clean-up output is the input minus position-degenerate faces / faces with an earlier twin of equal position indices, with the post-conditions of each option; decoded strips (alternating winding, restart index, global parity with stitching) give exactly the triangle multiset by point ids.",
   note="Clean-up is checked as an order-preserving sub-sequence (the tool keeps face order and first occurrences). Strip output through std::back_inserter.",
   design="3/C14"),
 "C15": dict(engine="rapidcheck + command-line runs", technique="property-based testing (rapidcheck): write/read round trips for PLY, STL, OBJ in process and through the draco_encoder / draco_decoder tools",
   text="Geometries restricted to what the formats carry (float32 xyz positions, float32 normals, 2-component tex coords, uint8 colours; magnitudes 1e-6..1e6, +-0, repeated values; all topologies of the shared generator). PLY: per-corner positions / normals / colours and faces bit-exact; STL: triangle multiset of position bits; OBJ: per-corner values within 0.5e-6 + 2^-23|x|, value entries shared exactly when they were shared, merged only when their 6-decimal texts are equal; clouds compared as first-occurrence sets of distinct printed points. Command line: obj/ply -> draco_encoder (-qp 0 -qt 0 -qn 0 -qg 0 -cl 0..10) -> draco_decoder -> obj/ply compared as triangle / point multisets, exact after one simulated text pass (OBJ) or bit-exact (PLY).",
   note="The tools are the repository's tools built -O2 (no sanitizer) from the working tree.",
   design="3/C15"),
 "C18": dict(engine="enumerator + libFuzzer", category="fault_enumeration", technique="same corruptions as C02 with emphasis on count/size fields; allocation oracle: replaced operator new/delete measure every request and the live peak against K0 + K*(input length + declared elements)",
   text="Global operator new / delete are replaced in the harness (malloc underneath, so ASan still guards the blocks). Between the enter/leave marks of a decode call every request and the live peak must stay <= 48 MiB + 256 B * (input length + (declared points + 3 * declared faces) * (4 + declared components) + declared symbols), where the declared counts come from DRACO_VERIF_DECLARED hooks at the places the decoders read them. Requests above the physical cap (256 MiB single / 1 GiB live) that are inside the bound throw bad_alloc and are counted as tolerated. Inputs: every count / size field of every seed rewritten as u32 and varint to {+1, x2, 2^16, 2^24, 2^31-1, 2^32-1}, all other C02 patterns (thorough), libFuzzer.",
   note="K0 covers the fixed 2^20-entry rANS tables of the concurrently live symbol decoders; the measured maximum (peak-K0)/units over successful decodes is written into the evidence each run.",
   design="3/C18"),
 "C19": dict(engine="rapidcheck + ThreadSanitizer", technique="property-based testing (rapidcheck) of concurrent job lists under ThreadSanitizer and ASan; differential oracle against the same jobs run alone",
   text="Rounds of 2/4/8/16 threads released together, each running 3..6 generated jobs (encode+decode, decode with skipped transforms, OBJ and PLY buffer round trips) on its own objects. ThreadSanitizer build: any report is a violation (happens-before analysis, independent of the interleaving that occurred); ASan build: any report; both: every job's output bytes and ordered digest equal the job run alone beforehand.",
   note="Schedules are explored, not enumerated; a correctly locked global that leaks state is visible only through the result comparison.",
   design="3/C19"),
 "C20": dict(engine="rapidcheck", technique="property-based testing (rapidcheck): generated keyframe animations, encode->decode compared frame by frame",
   text="1..1500 (thorough 10^4) frames, sorted / unsorted / duplicate / negative timestamps, 0..8 tracks of 1..16 components, float32 or int8..uint32 data, SetTimestamps before / between / after AddKeyframes, per-track quantization, speeds 0..10, forced prediction. Oracle: same frame count, timestamps bit-exact in order, every track retrievable under the id AddKeyframes returned with the same descriptor, unquantized tracks bit-exact per frame, quantized tracks within the half-step bound of C04.",
   note="Quantization above 22 (24) bits and 32-bit integers above 2^21 are not generated (cost of the symbol coder).",
   design="3/C20"),
 "C04": dict(engine="rapidcheck", technique="property-based testing (rapidcheck): per-value error bound |x'-x| <= step/2 + 8 half-ulps through a tag attribute, all coding methods",
   text="Every case carries >= 1 quantized float32 attribute (1..8 components, magnitudes 1e-6..1e9 with offsets, constant components, auto or explicit box, q up to 26) and a uint32 tag attribute that gives the input<->decoded correspondence under reordering methods. Oracle per decoded component: error <= half a step of the reference range plus the stated float32 allowance, value inside the box up to the allowance, and the declared parameters (read through the skip-transform decode) equal to the reference min/range/bits.",
   note="The allowance 8*2^-24*max(|x|,|min|,R) is derived in DESIGN.md; q 27..30 are reached only at transform level (see C04 evidence classes) because the entropy coder's cost grows with 2^q.",
   design="3/C04"),
 "C09": dict(engine="rapidcheck", technique="property-based testing (rapidcheck): reported num_encoded_points/faces compared with the decoded geometry",
   text="C01's generator weighted towards attribute seams on interior and boundary vertices, non-manifold vertices and edges, degenerate faces, isolated points, with tracking on, both encoder APIs, every method; oracle: reported counts == counts of the decoded geometry.",
   note="Known finding F12 (duplicate point ids) is excluded by construction while open.",
   design="3/C09"),
 "C10": dict(engine="rapidcheck", technique="property-based testing (rapidcheck): differential decode (ordinary vs skip-transform subsets) + described transform re-applied + reference dequantizer",
   text="Streams with >= 1 quantized attribute from the shared generator, all methods; each decoded normally and with the generated skip subset, the full subset and each single lossy type (thorough: all 32). Oracle: connectivity / point count / non-skipped attributes bit-identical; skipped transformed attributes keep their unique id, are integral, carry a transform description whose parameters equal the reference ones, and both the library's InverseTransformAttribute and the harness's own dequantizer reproduce the ordinary decode bit-exactly.",
   note="A plain integer attribute of a skipped type is handed out as its int32 working copy by the decoders; the check requires equal integers, id and no transform description for it (see DESIGN.md C10).",
   design="3/C10"),
 "C12": dict(engine="rapidcheck", technique="property-based testing (rapidcheck): metamorphic pair of separately encoded geometries sharing coordinates under one explicit quantization box",
   text="Pairs (A,B): A from the shared generator with one explicitly quantized float attribute, B an independently generated mesh or point cloud containing a subset of A's coordinates plus private ones inside the same box, encoded with independent method, speed, API and prediction. Oracle: every shared coordinate decodes to bit-identical floats on both sides, lies on the grid origin + k*range/(2^bits-1) and within half a step of the original.",
   note="Explicit parameters are fixed points of the options layer's text round trip (the API stores floats with 6 decimals); see DESIGN.md.",
   design="3/C12"),
 "C13": dict(engine="enumerator + rapidcheck", category="exploration", technique="exhaustive enumeration of all lists of <= 3 (thorough 4) triangles over 5 ids + property-based testing (rapidcheck) of larger lists, invariant oracle on the constructed corner table",
   text="Every ordered list of 1..3 triangles over vertex ids 0..4 (1,968,875 lists; thorough adds all 244 M lists of 4) and rapidcheck lists of up to 200/400 triangles built by reusing edges in both orientations, repeating / mirroring faces, degenerate faces, sparse ids. Oracle after CornerTable::Create: opposite relation symmetric, across different faces, over an oppositely oriented shared edge (input ids and table vertices); SwingRight from LeftMostCorner enumerates exactly the corners of the vertex once, SwingLeft inverse, boundary flag; VertexParent(Vertex(c)) == input id; degenerate faces unlinked; degenerate / isolated / new-vertex counters consistent; and the same style of invariants for a MeshAttributeCornerTable built from a generated per-corner attribute (seams symmetric and only where the attribute entries differ, attribute vertices refine base vertices).",
   note="Exhaustive for the enumerated sub-space only. Trusts the harness's restatement of the invariants (written from the property text, validated on the unchanged tree over the full enumeration).",
   design="3/C13"),
 "C16": dict(engine="enumerator + rapidcheck", technique="exhaustive enumeration (small wrap ranges, octahedral grids q<=5/6) + property-based testing (rapidcheck) with boundary-biased 32-bit tuples; inverse oracle dec(pred, enc(orig, pred)) == orig and correction interval",
   text="Wrap transform: all ranges inside [-6,6] x all originals x predictions in [-40,40] exhaustively; rapidcheck tuples with ranges at INT32_MIN/MAX/0, widths 0, 1, 2, 2^31-2 and predictions anywhere in int32, 1..4 components, decoder initialised through EncodeTransformData->DecodeTransformData. Canonicalized octahedral transform: every pair of canonical (s,t) for q = 2..5 (thorough 6), rapidcheck pairs for q up to 30 biased to corners, centre and diamond edges. Oracle: exact inverse, corrections inside [-N/2, N/2] resp. [0, 2^q-2], UBSan clean.",
   note="Canonical coordinates are the fixed points of OctahedronToolBox::CanonicalizeOctahedralCoords.",
   design="3/C16"),
 "C17": dict(engine="enumerator + rapidcheck", technique="exhaustive 8/16-bit varints and zig-zag maps + property-based testing (rapidcheck) of write/read operation sequences over EncoderBuffer/DecoderBuffer and the five bit coders, mirrored-read oracle",
   text="All values of uint8/int8/uint16/int16 through EncodeVarint/DecodeVarint and the zig-zag maps (bijection); every bit-field width 0..32 and every coder x width; rapidcheck sequences of scalars, byte blocks, varints (boundary-biased 32/64-bit), bit-mode regions with/without stored size and slack, and runs of the rANS / adaptive rANS / direct / folded / symbol bit coders with explicit and bulk biased bit sequences (bias 0..1) appended to one buffer. Oracle: the mirrored read sequence returns exactly the written values and ends at remaining_size()==0; further reads fail or give zero bits; the buffer is an exact-size heap block so ASan sees any over-read.",
   note="SymbolBitEncoder widths are capped at 20 (24) bits: it feeds EncodeSymbols, whose cost grows with the largest value (finding E1 beyond 2^31).",
   design="3/C17"),
 "C08": dict(engine="rapidcheck", technique="property-based testing (rapidcheck): encode->decode round trip + consumed-size oracle over generated symbol arrays",
   text="Generated-input search: 16 rapidcheck shards draw symbol arrays over length / component / distribution / magnitude / forced-scheme / compression-level classes, encode them with EncodeSymbols, and require an exact decode, decoded_size == encoded size, a second back-to-back block and a random tail found at the right offset; ASan+UBSan stay on. Exploration, not proof: it shows absence of violations on the generated cases only.",
   note="Trusts rapidcheck's generators/shrinker and the sanitizer runtimes. Magnitudes above 2^22 (quick) / 2^27 (thorough) are capped because the encoder allocates O(max value) counters; lengths up to 5000 (quick) / 1e5 (thorough).",
   design="3/C08"),
}
NA = []
def main():
    props = [json.loads(l)["id"] for l in open(os.path.join(V, "properties.jsonl"))]
    checks = []
    for pid in props:
        if pid not in CHECKS:
            continue
        c = CHECKS[pid]
        checks.append(dict(property_id=pid,
            quick_cmd="python3 verif.py check %s --tier quick" % pid,
            thorough_cmd="python3 verif.py check %s --tier thorough" % pid,
            evidence_file="/verif/evidence/%s.json" % pid,
            replay_cmd_template="python3 verif.py replay %s {path}" % pid,
            engine=c["engine"],
            level_claimed=dict(category=c.get("category", "exploration"), text=c["text"], design_ref="DESIGN.md section " + c["design"]),
            level_note=c["note"], technique=c["technique"]))
    na = [dict(property_id=p, reason=r) for p, r in NA]
    claimed = set(CHECKS)
    for pid in props:
        if pid not in claimed and pid not in [p for p, _ in NA]:
            na.append(dict(property_id=pid, reason="check not built yet in this revision of /verif (planned, see DESIGN.md section 3); nothing is claimed for it"))
    m = dict(version=1,
        setup_cmd="python3 verif.py setup",
        hooks=dict(guard="DRACO_VERIF", enable="verif.py compiles /repo/src with -DDRACO_VERIF (configs san/tsan/plain, see lib/vbuild.py)",
                   baseline_off_cmd="cmake --build /repo/_build -j16 && cd /repo/_build && (./draco_tests; ./draco_factory_tests)   # guard off: plain cmake build without -DDRACO_VERIF; 187 baseline tests pass, the 2 always-failing Obj*All tests fail as in BASELINE.json",
                   source_commits=HOOK_COMMITS, add_only=True),
        engines=[dict(name="rapidcheck", path="/usr/include/rapidcheck.h", kind_free_text="property-based testing library (C++), sharded x16 by verif.py"),
                 dict(name="libFuzzer", path="clang++ -fsanitize=fuzzer", kind_free_text="coverage-guided fuzzing with ASan+UBSan"),
                 dict(name="enumerators", path="/verif/src/enum", kind_free_text="exhaustive enumeration of the finite sub-spaces named by the properties")],
        checks=checks, not_applicable=na,
        notes="Driver: /verif/verif.py (lib/vbuild.py builds /repo's working tree by content hash; lib/checks.py holds the checks). Known findings: /verif/known_findings.json. Seeded changes: /verif/seeded/.")
    json.dump(m, open(os.path.join(V, "MANIFEST.json"), "w"), indent=1)
HOOK_COMMITS = ['036c817', '13c86c7']
if __name__ == "__main__":
    main()
