#!/usr/bin/env python3
"""Regenerates MANIFEST.json from the table below (single source of truth for the registered checks)."""
import json, os, sys
sys.path.insert(0, os.path.join(os.path.dirname(os.path.abspath(__file__)), "..", "lib"))
V = "/verif"
CHECKS = {
 "C08": dict(engine="rapidcheck", technique="property-based testing (rapidcheck): encode->decode round trip + consumed-size oracle over generated symbol arrays",
   text="Generated-input search: 16 rapidcheck shards draw symbol arrays over length / component / distribution / magnitude / forced-scheme / compression-level classes, encode them with EncodeSymbols, and require an exact decode, decoded_size == encoded size, a second back-to-back block and a random tail found at the right offset; ASan+UBSan stay on. Exploration, not proof: it shows absence of violations on the generated cases only.",
   note="Trusts rapidcheck's generators/shrinker and the sanitizer runtimes. Magnitudes above 2^22 (quick) / 2^27 (thorough) are capped because the encoder allocates O(max value) counters; lengths up to 5000 (quick) / 1e5 (thorough).",
   design="3/C08"),
}
NA = []
def main():
    props = [json.loads(l)["id"] for l in open(os.path.join(V, "properties.jsonl"))]
    checks = []
    for pid in props:
        if pid not in CHECKS:
            continue
        c = CHECKS[pid]
        checks.append(dict(property_id=pid,
            quick_cmd="python3 verif.py check %s --tier quick" % pid,
            thorough_cmd="python3 verif.py check %s --tier thorough" % pid,
            evidence_file="/verif/evidence/%s.json" % pid,
            replay_cmd_template="python3 verif.py replay %s {path}" % pid,
            engine=c["engine"],
            level_claimed=dict(category=c.get("category", "exploration"), text=c["text"], design_ref="DESIGN.md section " + c["design"]),
            level_note=c["note"], technique=c["technique"]))
    na = [dict(property_id=p, reason=r) for p, r in NA]
    claimed = set(CHECKS)
    for pid in props:
        if pid not in claimed and pid not in [p for p, _ in NA]:
            na.append(dict(property_id=pid, reason="check not built yet in this revision of /verif (planned, see DESIGN.md section 3); nothing is claimed for it"))
    m = dict(version=1,
        setup_cmd="python3 verif.py setup",
        hooks=dict(guard="DRACO_VERIF", enable="verif.py compiles /repo/src with -DDRACO_VERIF (configs san/tsan/plain, see lib/vbuild.py)",
                   baseline_off_cmd="cmake --build /repo/_build && cd /repo/_build && ./draco_tests && ./draco_factory_tests",
                   source_commits=HOOK_COMMITS, add_only=True),
        engines=[dict(name="rapidcheck", path="/usr/include/rapidcheck.h", kind_free_text="property-based testing library (C++), sharded x16 by verif.py"),
                 dict(name="libFuzzer", path="clang++ -fsanitize=fuzzer", kind_free_text="coverage-guided fuzzing with ASan+UBSan"),
                 dict(name="enumerators", path="/verif/src/enum", kind_free_text="exhaustive enumeration of the finite sub-spaces named by the properties")],
        checks=checks, not_applicable=na,
        notes="Driver: /verif/verif.py (lib/vbuild.py builds /repo's working tree by content hash; lib/checks.py holds the checks). Known findings: /verif/known_findings.json. Seeded changes: /verif/seeded/.")
    json.dump(m, open(os.path.join(V, "MANIFEST.json"), "w"), indent=1)
HOOK_COMMITS = []
if __name__ == "__main__":
    main()
