#!/bin/bash
# usage: tools/run_all_seeds.sh [seed ids...]   - runs every seeded change against the quick check of its own property
# (scratch worktree /tmp/mut, never /repo) and appends one line per run to seeded/results.txt
cd /verif
IDS=${@:-$(ls seeded | grep -v results)}
for id in $IDS; do
  prop=${id:0:3}
  t0=$(date +%s)
  out=$(tools/try_seed.sh seeded/$id/patch.diff $prop 2>&1 | grep -v "^\[build")
  rc=$(echo "$out" | grep -o "^exit=[0-9]*" | tail -1)
  nv=$(echo "$out" | grep -c "^VIOLATION property=$prop")
  first=$(echo "$out" | grep -A1 "^VIOLATION property=$prop" | sed -n 2p | cut -c1-160)
  echo "$id vs $prop: $rc violations=$nv wall=$(( $(date +%s) - t0 ))s seed=${VERIF_SEED:-1} tree=$(git -C /repo rev-parse --short HEAD) verif=$(git -C /verif rev-parse --short HEAD) :: $first" >> seeded/results.txt
done
