#!/bin/bash
# usage: tools/run1.sh <harness> <mode> <prop> <seed> <cases> [trace-level]   (one shard, for development)
H=$1; MODE=$2; PROP=$3; SEED=$4; N=$5; TR=${6:-}
export ASAN_OPTIONS=detect_leaks=1:allocator_may_return_null=1:max_allocation_size_mb=3000 UBSAN_OPTIONS=halt_on_error=1:print_stacktrace=1
export VERIF_OUT=/tmp/run1.json VERIF_PROP=$PROP VERIF_MODE=$MODE VERIF_REPLAY_DIR=${VERIF_REPLAY_DIR:-/verif/replay/tmp} VERIF_TRACE=$TR
export VERIF_OPEN=${VERIF_OPEN-$(python3 -c "import json;print(','.join(f['id'] for f in json.load(open('/verif/known_findings.json'))['findings'] if f.get('status')=='open'))")}
export RC_PARAMS="seed=$SEED max_success=$N"
exec /verif/build/san/bin/$H
