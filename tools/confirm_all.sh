#!/bin/bash
# builds /tmp/confirm_wt once and confirms the seeds given as arguments
cd /tmp/confirm_wt || exit 1
if [ ! -f _build/libdraco.a ]; then
  cmake -G Ninja -S . -B _build -DDRACO_TESTS=ON -DDRACO_GOOGLETEST_PATH=/repo/third_party/googletest -DCMAKE_BUILD_TYPE=RelWithDebInfo -DCMAKE_CXX_FLAGS=-Wno-error > /tmp/confirm_cmake.log 2>&1
  ninja -C _build -j8 draco_tests draco_factory_tests draco_encoder draco_decoder libdraco.a > /tmp/confirm_build.log 2>&1
fi
cd /verif
for id in "$@"; do tools/confirm_seed.sh $id /tmp/confirm_wt; done
