#!/usr/bin/env python3
"""Driver for the draco property-based-testing / fuzzing checks (see DESIGN.md).

  verif.py setup                         build every config and harness
  verif.py check <ID> [--tier quick|thorough]
  verif.py replay <ID> <file>
  verif.py build [harness ...]

Every `check` starts by rebuilding whatever changed under /repo (content hashes, not mtimes).
"""
import sys, os, argparse
sys.path.insert(0, os.path.join(os.path.dirname(os.path.abspath(__file__)), "lib"))
import vbuild
import checks


def main():
    ap = argparse.ArgumentParser()
    sub = ap.add_subparsers(dest="cmd")
    sub.add_parser("setup")
    p = sub.add_parser("build")
    p.add_argument("names", nargs="*")
    p = sub.add_parser("check")
    p.add_argument("prop")
    p.add_argument("--tier", default=os.environ.get("VERIF_TIER", "quick"))
    p = sub.add_parser("replay")
    p.add_argument("prop")
    p.add_argument("path")
    a = ap.parse_args()
    if a.cmd == "setup":
        vbuild.ensure_built(sorted(vbuild.HARNESSES))
        return 0
    if a.cmd == "build":
        vbuild.ensure_built(a.names or sorted(vbuild.HARNESSES))
        return 0
    if a.cmd == "check":
        return checks.run_check(a.prop, a.tier)
    if a.cmd == "replay":
        return checks.run_replay(a.prop, a.path)
    ap.print_help()
    return 2


if __name__ == "__main__":
    sys.exit(main())
