// C13 - the corner table built from any triangle list is a consistent manifold structure.
//   --enum (mode c13enum): exhaustive enumeration of all ordered lists of <= K triangles over 5 vertex ids
//   rapidcheck (mode c13): larger random lists biased to shared / non-manifold edges, bow-ties, repeated, mirrored
//                          and degenerate faces, plus a MeshAttributeCornerTable built on top
#include "common/vf.h"
#include "draco/mesh/corner_table.h"
#include "draco/mesh/mesh.h"
#include "draco/mesh/mesh_attribute_corner_table.h"
#include "draco/mesh/mesh_misc_functions.h"

using namespace vf;
using draco::CornerIndex;
using draco::CornerTable;
using draco::FaceIndex;
using draco::VertexIndex;

typedef std::array<int, 3> F3;

struct CtInfo {
  bool shared_edge = false, valence3 = false, degenerate = false, mirrored = false, bowtie = false, new_vertices = false;
};

static std::string check_ct(const std::vector<F3> &faces, CtInfo *info) {
  draco::IndexTypeVector<FaceIndex, CornerTable::FaceType> fv;
  for (auto &f : faces) fv.push_back({VertexIndex(f[0]), VertexIndex(f[1]), VertexIndex(f[2])});
  std::unique_ptr<CornerTable> ct = CornerTable::Create(fv);
  if (!ct) {
    count("create_returned_null");
    return "";
  }
  const int nc = static_cast<int>(faces.size()) * 3;
  if (ct->num_corners() != nc || ct->num_faces() != static_cast<int>(faces.size())) return "corner / face count differs from the input";
  auto in = [&](int c) { return faces[c / 3][c % 3]; };
  std::vector<char> deg(faces.size());
  int ndeg = 0, max_id = -1;
  for (size_t f = 0; f < faces.size(); ++f) {
    deg[f] = faces[f][0] == faces[f][1] || faces[f][1] == faces[f][2] || faces[f][0] == faces[f][2];
    ndeg += deg[f];
    for (int k = 0; k < 3; ++k) max_id = std::max(max_id, faces[f][k]);
    if (ct->IsDegenerated(FaceIndex(static_cast<uint32_t>(f))) != static_cast<bool>(deg[f])) return "IsDegenerated disagrees with the input";
  }
  if (ct->NumDegeneratedFaces() != ndeg) return "NumDegeneratedFaces is wrong";
  const int nv = ct->num_vertices();
  if (nv < max_id + 1) return "num_vertices smaller than the largest input id + 1";
  if (ct->NumOriginalVertices() + ct->NumNewVertices() != nv) return "original + new vertices != num_vertices";
  // (1) opposite relation, (3) vertex parents, (4) degenerate faces unlinked
  for (int c = 0; c < nc; ++c) {
    const CornerIndex ci(c);
    const VertexIndex v = ct->Vertex(ci);
    if (v.value() >= static_cast<uint32_t>(nv)) return "corner maps to a vertex that does not exist";
    const CornerIndex o = ct->Opposite(ci);
    if (deg[c / 3]) {
      if (o != draco::kInvalidCornerIndex) return "corner " + std::to_string(c) + " of a degenerate face has an opposite";
      continue;
    }
    if (ct->VertexParent(v).value() != static_cast<uint32_t>(in(c))) {
      return "corner " + std::to_string(c) + ": VertexParent(Vertex(c)) = " + std::to_string(ct->VertexParent(v).value()) + " != input id " + std::to_string(in(c));
    }
    if (o == draco::kInvalidCornerIndex) continue;
    const int oc = static_cast<int>(o.value());
    if (oc < 0 || oc >= nc) return "Opposite out of range";
    if (deg[oc / 3]) return "corner " + std::to_string(c) + " is linked to degenerate face " + std::to_string(oc / 3);
    if (ct->Opposite(o) != ci) {
      return "Opposite not symmetric: Opposite(" + std::to_string(c) + ")=" + std::to_string(oc) + " but Opposite(" + std::to_string(oc) + ")=" +
             std::to_string(static_cast<int>(ct->Opposite(o).value()));
    }
    if (oc / 3 == c / 3) return "corner is opposite to a corner of its own face";
    const int cn = 3 * (c / 3) + (c + 1) % 3, cp = 3 * (c / 3) + (c + 2) % 3;
    const int on = 3 * (oc / 3) + (oc + 1) % 3, op = 3 * (oc / 3) + (oc + 2) % 3;
    if (in(cn) != in(op) || in(cp) != in(on)) return "opposite corners do not share an oppositely oriented edge (input ids)";
    if (ct->Vertex(CornerIndex(cn)) != ct->Vertex(CornerIndex(op)) || ct->Vertex(CornerIndex(cp)) != ct->Vertex(CornerIndex(on)))
      return "opposite corners do not share an oppositely oriented edge (table vertices)";
    if (ct->Next(ci).value() != static_cast<uint32_t>(cn) || ct->Previous(ci).value() != static_cast<uint32_t>(cp)) return "Next/Previous wrong";
    info->shared_edge = true;
  }
  // (2) fans
  std::vector<std::vector<int>> corners_of(nv);
  for (int c = 0; c < nc; ++c)
    if (!deg[c / 3]) corners_of[ct->Vertex(CornerIndex(c)).value()].push_back(c);
  int isolated = 0;
  std::map<int, int> table_vertices_per_input;
  for (int v = 0; v < nv; ++v) {
    const VertexIndex vi(v);
    const CornerIndex l = ct->LeftMostCorner(vi);
    if (corners_of[v].empty()) {
      ++isolated;
      if (!ct->IsVertexIsolated(vi)) return "vertex " + std::to_string(v) + " has no corner but is not reported isolated";
      continue;
    }
    table_vertices_per_input[static_cast<int>(ct->VertexParent(vi).value())]++;
    if (ct->IsVertexIsolated(vi)) return "vertex with corners reported isolated";
    if (l == draco::kInvalidCornerIndex || static_cast<int>(l.value()) >= nc) return "LeftMostCorner invalid for a used vertex";
    if (ct->Vertex(l) != vi) return "LeftMostCorner(v) does not map to v";
    std::set<int> seen;
    CornerIndex c = l;
    bool closed = false;
    size_t steps = 0;
    while (c != draco::kInvalidCornerIndex) {
      if (++steps > corners_of[v].size() + 1) return "SwingRight does not terminate around vertex " + std::to_string(v);
      if (ct->Vertex(c) != vi) return "SwingRight leaves the vertex";
      if (!seen.insert(static_cast<int>(c.value())).second) return "fan of vertex " + std::to_string(v) + " repeats a corner";
      const CornerIndex r = ct->SwingRight(c);
      if (r != draco::kInvalidCornerIndex && ct->SwingLeft(r) != c) return "SwingLeft is not the inverse of SwingRight";
      c = r;
      if (c == l) {
        closed = true;
        break;
      }
    }
    if (seen.size() != corners_of[v].size()) {
      return "fan from LeftMostCorner(" + std::to_string(v) + ") reaches " + std::to_string(seen.size()) + " of " +
             std::to_string(corners_of[v].size()) + " corners of the vertex";
    }
    for (int cc : corners_of[v])
      if (!seen.count(cc)) return "corner of the vertex not in its fan";
    if (!closed) {
      if (ct->SwingLeft(l) != draco::kInvalidCornerIndex) return "open fan: LeftMostCorner is not the left-most corner";
      if (!ct->IsOnBoundary(vi)) return "open fan but IsOnBoundary is false";
    } else if (ct->IsOnBoundary(vi)) {
      return "closed fan but IsOnBoundary is true";
    }
    if (static_cast<int>(seen.size()) != ct->Valence(vi) - (closed ? 0 : 1) && ct->Valence(vi) != static_cast<int>(seen.size()) + (closed ? 0 : 1))
      return "Valence inconsistent with the fan";
  }
  if (ct->NumIsolatedVertices() != isolated) return "NumIsolatedVertices = " + std::to_string(ct->NumIsolatedVertices()) + ", counted " + std::to_string(isolated);
  for (auto &kv : table_vertices_per_input) info->bowtie |= kv.second > 1;
  info->new_vertices = ct->NumNewVertices() > 0;
  info->degenerate = ndeg > 0;
  // classes: edge valence, mirrored pairs
  std::map<std::pair<int, int>, int> und, dir;
  for (size_t f = 0; f < faces.size(); ++f) {
    if (deg[f]) continue;
    for (int k = 0; k < 3; ++k) {
      const int a = faces[f][k], b = faces[f][(k + 1) % 3];
      und[std::minmax(a, b)]++;
      dir[{a, b}]++;
    }
  }
  for (auto &kv : und) info->valence3 |= kv.second >= 3;
  for (auto &kv : dir) info->mirrored |= kv.second >= 2;
  return "";
}

// (5) attribute corner table on top of a mesh whose attribute has per-corner entries
static std::string check_att_ct(const std::vector<F3> &faces, const std::vector<uint32_t> &corner_entry, uint32_t nentries) {
  draco::Mesh mesh;
  const uint32_t nc = static_cast<uint32_t>(faces.size()) * 3;
  // points = distinct (position id, attribute entry) pairs
  std::map<std::pair<int, uint32_t>, uint32_t> pid;
  std::vector<std::pair<int, uint32_t>> pts;
  std::vector<uint32_t> cp(nc);
  for (uint32_t c = 0; c < nc; ++c) {
    auto key = std::make_pair(faces[c / 3][c % 3], corner_entry[c]);
    auto it = pid.find(key);
    if (it == pid.end()) {
      it = pid.emplace(key, static_cast<uint32_t>(pts.size())).first;
      pts.push_back(key);
    }
    cp[c] = it->second;
  }
  int maxv = 0;
  for (auto &f : faces)
    for (int k = 0; k < 3; ++k) maxv = std::max(maxv, f[k]);
  mesh.set_num_points(static_cast<uint32_t>(pts.size()));
  for (size_t f = 0; f < faces.size(); ++f) mesh.AddFace({draco::PointIndex(cp[3 * f]), draco::PointIndex(cp[3 * f + 1]), draco::PointIndex(cp[3 * f + 2])});
  draco::GeometryAttribute ga;
  ga.Init(draco::GeometryAttribute::POSITION, nullptr, 1, draco::DT_INT32, false, 4, 0);
  const int pa = mesh.AddAttribute(ga, false, maxv + 1);
  ga.Init(draco::GeometryAttribute::GENERIC, nullptr, 1, draco::DT_INT32, false, 4, 0);
  const int aa = mesh.AddAttribute(ga, false, nentries);
  for (uint32_t p = 0; p < pts.size(); ++p) {
    mesh.attribute(pa)->SetPointMapEntry(draco::PointIndex(p), draco::AttributeValueIndex(pts[p].first));
    mesh.attribute(aa)->SetPointMapEntry(draco::PointIndex(p), draco::AttributeValueIndex(pts[p].second));
  }
  for (int v = 0; v <= maxv; ++v) mesh.attribute(pa)->SetAttributeValue(draco::AttributeValueIndex(v), &v);
  for (uint32_t v = 0; v < nentries; ++v) mesh.attribute(aa)->SetAttributeValue(draco::AttributeValueIndex(v), &v);
  std::unique_ptr<CornerTable> ct = draco::CreateCornerTableFromPositionAttribute(&mesh);
  if (!ct) return "";
  draco::MeshAttributeCornerTable act;
  if (!act.InitFromAttribute(&mesh, ct.get(), mesh.attribute(aa))) return "";
  count("attribute_corner_tables");
  bool any_seam = false;
  for (uint32_t c = 0; c < nc; ++c) {
    const CornerIndex ci(c);
    const CornerIndex o = ct->Opposite(ci);
    const CornerIndex ao = act.Opposite(ci);
    if (ao != draco::kInvalidCornerIndex) {
      if (ao != o) return "attribute table links corners the base table does not link";
      if (act.Opposite(ao) != ci) return "attribute opposite relation not symmetric";
      if (act.IsCornerOppositeToSeamEdge(ci)) return "seam edge still linked";
    } else if (o != draco::kInvalidCornerIndex) {
      // seam: must be marked on both sides, and the attribute entries must really differ across the edge
      any_seam = true;
      if (!act.IsCornerOppositeToSeamEdge(ci) || !act.IsCornerOppositeToSeamEdge(o)) return "unlinked interior edge not marked as seam on both sides";
      const uint32_t cn = 3 * (c / 3) + (c + 1) % 3, cpv = 3 * (c / 3) + (c + 2) % 3;
      const uint32_t oc = o.value(), on = 3 * (oc / 3) + (oc + 1) % 3, op = 3 * (oc / 3) + (oc + 2) % 3;
      if (corner_entry[cn] == corner_entry[op] && corner_entry[cpv] == corner_entry[on]) return "edge marked as seam although both end points carry the same attribute entries on both sides";
    }
    if (o != draco::kInvalidCornerIndex && ao != draco::kInvalidCornerIndex) {
      const uint32_t cn = 3 * (c / 3) + (c + 1) % 3, cpv = 3 * (c / 3) + (c + 2) % 3;
      const uint32_t oc = o.value(), on = 3 * (oc / 3) + (oc + 1) % 3, op = 3 * (oc / 3) + (oc + 2) % 3;
      if (corner_entry[cn] != corner_entry[op] || corner_entry[cpv] != corner_entry[on]) return "edge with different attribute entries on its two sides is not a seam";
    }
  }
  // attribute vertices refine base vertices; corners of one attribute vertex share entry and base vertex
  std::map<uint32_t, std::pair<uint32_t, uint32_t>> av;
  for (uint32_t c = 0; c < nc; ++c) {
    if (ct->IsDegenerated(FaceIndex(c / 3))) continue;
    const uint32_t v = act.Vertex(CornerIndex(c)).value();
    if (v >= static_cast<uint32_t>(act.num_vertices())) return "attribute vertex out of range";
    auto val = std::make_pair(ct->Vertex(CornerIndex(c)).value(), corner_entry[c]);
    auto it = av.find(v);
    if (it == av.end()) {
      av.emplace(v, val);
    } else if (it->second != val) {
      return "one attribute vertex covers corners of different base vertices / attribute entries";
    }
  }
  if (any_seam) count("attribute_corner_tables_with_seam");
  return "";
}

static std::string describe(const std::vector<F3> &faces) {
  std::string s = "[";
  for (size_t i = 0; i < faces.size() && i < 40; ++i) {
    s += (i ? "," : "") + std::string("[") + std::to_string(faces[i][0]) + "," + std::to_string(faces[i][1]) + "," + std::to_string(faces[i][2]) + "]";
  }
  return s + "]";
}

struct ListSpec {
  std::vector<int32_t> ids;        // 3 per face
  std::vector<uint32_t> entries;   // attribute entry per corner (optional)
  uint32_t nentries = 0;
  template <class A>
  void io(A &a) {
    a(ids); a(entries); a(nentries);
  }
  std::vector<F3> faces() const {
    std::vector<F3> f(ids.size() / 3);
    for (size_t i = 0; i < f.size(); ++i) f[i] = {ids[3 * i], ids[3 * i + 1], ids[3 * i + 2]};
    return f;
  }
};

static std::string run_spec(const ListSpec &s) {
  const std::vector<F3> faces = s.faces();
  CtInfo info;
  std::string err = check_ct(faces, &info);
  if (!err.empty()) return err;
  if (!s.entries.empty()) {
    err = check_att_ct(faces, s.entries, s.nentries);
    if (!err.empty()) return "attribute corner table: " + err;
  }
  if (info.shared_edge) nontrivial(hash_tokens(to_tokens(s)));
  if (info.shared_edge && faces.size() <= 12) sample("{\"triangles\":" + describe(faces) + "}");
  if (info.valence3) count("edge_with_3plus_faces");
  if (info.bowtie) count("bowtie_or_split_vertex");
  if (info.mirrored) count("mirrored_or_duplicate_pair");
  if (info.degenerate) count("degenerate_face");
  if (info.new_vertices) count("non_manifold_vertex_split");
  if (info.shared_edge) count("shared_edge");
  return "";
}

static ListSpec gen_spec(bool thorough) {
  ListSpec s;
  const int nf = W({30, 50, 20}) == 0 ? R(1, 6) : (P(75) ? R(5, 60) : R(61, thorough ? 400 : 200));
  const int nv = R(3, std::max(3, std::min(60, nf + 2)));
  const bool sparse = P(10);
  std::vector<F3> f;
  for (int i = 0; i < nf; ++i) {
    F3 t;
    const int k = W({35, 40, 8, 7, 5, 5});
    if (f.empty() || k == 0) {
      t = {R(0, nv - 1), R(0, nv - 1), R(0, nv - 1)};
    } else if (k == 1) {  // new face on an existing edge, opposite orientation (manifold continuation or 3rd face)
      const F3 &g = f[R(0, static_cast<int>(f.size()) - 1)];
      const int e = R(0, 2);
      t = {g[(e + 1) % 3], g[e], R(0, nv - 1)};
    } else if (k == 2) {  // same orientation on an existing edge
      const F3 &g = f[R(0, static_cast<int>(f.size()) - 1)];
      const int e = R(0, 2);
      t = {g[e], g[(e + 1) % 3], R(0, nv - 1)};
    } else if (k == 3) {  // repeated face (possibly rotated)
      const F3 &g = f[R(0, static_cast<int>(f.size()) - 1)];
      const int r = R(0, 2);
      t = {g[r], g[(r + 1) % 3], g[(r + 2) % 3]};
    } else if (k == 4) {  // mirrored face
      const F3 &g = f[R(0, static_cast<int>(f.size()) - 1)];
      t = {g[1], g[0], g[2]};
    } else {  // degenerate
      const int a = R(0, nv - 1), b = R(0, nv - 1);
      const int w = R(0, 3);
      t = w == 0 ? F3{a, a, b} : w == 1 ? F3{a, b, a} : w == 2 ? F3{a, b, b} : F3{a, a, a};
    }
    f.push_back(t);
  }
  for (auto &t : f)
    for (int k = 0; k < 3; ++k) s.ids.push_back(sparse ? t[k] * 7 + 3 : t[k]);
  if (P(50)) {
    // per-corner attribute entries: per-vertex with random seams
    const uint32_t nc = static_cast<uint32_t>(s.ids.size());
    int maxv = 0;
    for (int id : s.ids) maxv = std::max(maxv, id);
    s.nentries = static_cast<uint32_t>(maxv + 1);
    s.entries.resize(nc);
    for (uint32_t c = 0; c < nc; ++c) s.entries[c] = static_cast<uint32_t>(s.ids[c]);
    const int seams = R(0, std::max(1, static_cast<int>(nc) / 4));
    for (int i = 0; i < seams; ++i) {
      const uint32_t c = static_cast<uint32_t>(R(0, static_cast<int>(nc) - 1));
      s.entries[c] = P(60) ? s.nentries++ : static_cast<uint32_t>(R(0, static_cast<int>(s.nentries) - 1));
    }
  }
  return s;
}

// exhaustive enumeration: all ordered lists of k triangles over ids 0..4, k = 1..K; shard by list index
static std::string enumerate(int K, int shard, int nshards) {
  std::vector<F3> tris;
  for (int a = 0; a < 5; ++a)
    for (int b = 0; b < 5; ++b)
      for (int c = 0; c < 5; ++c) tris.push_back({a, b, c});
  uint64_t total = 0;
  for (int k = 1; k <= K; ++k) {
    uint64_t n = 1;
    for (int i = 0; i < k; ++i) n *= 125;
    for (uint64_t idx = static_cast<uint64_t>(shard); idx < n; idx += static_cast<uint64_t>(nshards)) {
      std::vector<F3> faces(k);
      uint64_t x = idx;
      for (int i = 0; i < k; ++i) {
        faces[i] = tris[x % 125];
        x /= 125;
      }
      // cheap record of the case under test for the watchdog / sanitizer death hook
      {
        auto &cc = current_case();
        cc.mode = "c13";
        cc.tokens.assign(1, k * 3);
        for (auto &t : faces)
          for (int j = 0; j < 3; ++j) cc.tokens.push_back(t[j]);
        cc.tokens.push_back(0);
        cc.tokens.push_back(0);
        if ((total & 1023) == 0) arm_watchdog();
      }
      CtInfo info;
      std::string err = check_ct(faces, &info);
      ++total;
      stats().evaluations++;
      if (!err.empty()) {
        ListSpec s;
        for (auto &t : faces)
          for (int j = 0; j < 3; ++j) s.ids.push_back(t[j]);
        set_case("c13", to_tokens(s), "{\"triangles\":" + describe(faces) + "}");
        return err;
      }
      if (info.shared_edge) {
        // distinct by construction (each list is enumerated once): count instead of hashing 10^8 lists
        count("enumerated_lists_with_shared_edge");
        if (k <= 3 && (idx % 9973) == 0) {
          ListSpec s;
          for (auto &t : faces)
            for (int j = 0; j < 3; ++j) s.ids.push_back(t[j]);
          nontrivial(hash_tokens(to_tokens(s)));
          sample("{\"triangles\":" + describe(faces) + "}");
        }
      }
      if (info.valence3) count("edge_with_3plus_faces");
      if (info.bowtie) count("bowtie_or_split_vertex");
      if (info.mirrored) count("mirrored_or_duplicate_pair");
      if (info.degenerate) count("degenerate_face");
    }
    count("enumerated_k" + std::to_string(k), 0);
  }
  stats().have_exhaustive = true;
  stats().exhaustive = true;
  return "";
}

int main(int argc, char **argv) {
  const bool thorough = std::string(env("VERIF_TIER", "quick")) == "thorough";
  const std::string mode = env("VERIF_MODE", "c13");
  Harness h;
  if (mode == "c13enum") {
    stats().rule = std::string("exhaustive: every ordered list of 1..") + (thorough ? "4" : "3") +
                   " triangles over vertex ids 0..4 (125^k lists of length k), sharded by index; non-trivial = list with a "
                   "linked (shared, oppositely oriented) edge - counted in classes.enumerated_lists_with_shared_edge; the "
                   "hashed distinct_nontrivial is a 1/9973 sample of them";
  } else {
    stats().rule =
        "rapidcheck-generated lists of 1..200 (thorough 400) triangles over 3..60 ids built by reuse of existing edges "
        "(both orientations), repeated / mirrored / degenerate faces, sparse ids, with a per-corner attribute for the "
        "attribute corner table; non-trivial = list with a linked edge; distinct by spec hash";
  }
  h.run = [&](const std::string &) {
    ListSpec s = gen_spec(thorough);
    set_case("c13", to_tokens(s), "{\"triangles\":" + describe(s.faces()) + "}");
    return guarded([&] { return run_spec(s); });
  };
  h.replay = [&](const std::string &, const std::vector<int64_t> &t) {
    ListSpec s;
    if (!from_tokens(t, &s)) return std::string("bad replay tokens");
    return guarded([&] { return run_spec(s); });
  };
  h.enumerate = [&](const std::string &) {
    return enumerate(thorough ? 4 : 3, atoi(env("VERIF_SHARD", "0")), std::max(1, atoi(env("VERIF_NSHARDS", "1"))));
  };
  return harness_main(argc, argv, h);
}
