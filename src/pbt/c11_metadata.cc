// C11 - geometry and attribute metadata survive the round trip.
#include "common/vf.h"
#include "draco/compression/decode.h"
#include "draco/compression/encode.h"
#include "draco/mesh/mesh.h"
#include "draco/metadata/geometry_metadata.h"
#include "draco/point_cloud/point_cloud.h"

using namespace vf;

struct MetaNode {
  std::vector<std::string> names;       // entries in insertion order
  std::vector<std::string> values;
  std::vector<int32_t> kinds;           // how the entry is added: 0 binary, 1 string, 2 int, 3 double, 4 int array, 5 double array
  std::vector<std::string> sub_names;
  std::vector<MetaNode> subs;
  template <class A>
  void io(A &a) {
    a(names); a(values); a(kinds); a(sub_names); a(subs);
  }
};
struct MetaSpec {
  MetaNode root;
  std::vector<uint32_t> att_ids;       // attribute metadata in order (unique id it refers to)
  std::vector<MetaNode> att_nodes;
  int32_t geometry = 0;                // 0 pc sequential, 1 pc kd-tree, 2 mesh sequential, 3 mesh edgebreaker
  int32_t use_att_api = 0;             // attach attribute metadata through PointCloud::AddAttributeMetadata(att_id, ..)
  template <class A>
  void io(A &a) {
    a(root); a(att_ids); a(att_nodes); a(geometry); a(use_att_api);
  }
};

// model: what the container holds after the spec was applied (duplicate entry names overwrite, a duplicate
// sub-metadata name is refused by AddSubMetadata)
struct Model {
  std::map<std::string, std::string> entries;
  std::map<std::string, Model> subs;
  bool operator==(const Model &o) const { return entries == o.entries && subs == o.subs; }
};

static void apply(const MetaNode &n, draco::Metadata *m, Model *model, int depth, int *max_depth, bool *long_name, int *count_nodes) {
  *max_depth = std::max(*max_depth, depth);
  ++*count_nodes;
  for (size_t i = 0; i < n.names.size(); ++i) {
    const std::string &v = n.values[i];
    std::string stored = v;
    switch (n.kinds[i]) {
      case 1: m->AddEntryString(n.names[i], v); break;
      case 2: {
        int32_t x = 0;
        memcpy(&x, v.data(), std::min<size_t>(4, v.size()));
        m->AddEntryInt(n.names[i], x);
        stored.assign(reinterpret_cast<const char *>(&x), 4);
        break;
      }
      case 3: {
        double x = 0;
        memcpy(&x, v.data(), std::min<size_t>(8, v.size()));
        m->AddEntryDouble(n.names[i], x);
        stored.assign(reinterpret_cast<const char *>(&x), 8);
        break;
      }
      case 4: {
        std::vector<int32_t> a(v.size() / 4);
        if (!a.empty()) memcpy(a.data(), v.data(), a.size() * 4);
        m->AddEntryIntArray(n.names[i], a);
        stored = v.substr(0, a.size() * 4);
        break;
      }
      case 5: {
        std::vector<double> a(v.size() / 8);
        if (!a.empty()) memcpy(a.data(), v.data(), a.size() * 8);
        m->AddEntryDoubleArray(n.names[i], a);
        stored = v.substr(0, a.size() * 8);
        break;
      }
      default: m->AddEntryBinary(n.names[i], std::vector<uint8_t>(v.begin(), v.end()));
    }
    model->entries[n.names[i]] = stored;
    if (n.names[i].size() > 255) *long_name = true;
  }
  for (size_t i = 0; i < n.subs.size(); ++i) {
    std::unique_ptr<draco::Metadata> sub(new draco::Metadata());
    Model sm;
    bool ln = false;
    apply(n.subs[i], sub.get(), &sm, depth + 1, max_depth, &ln, count_nodes);
    if (m->AddSubMetadata(n.sub_names[i], std::move(sub))) {
      model->subs[n.sub_names[i]] = sm;
      if (n.sub_names[i].size() > 255 || ln) *long_name = true;
    }
  }
}

static std::string compare(const Model &want, const draco::Metadata &got, const std::string &path) {
  if (got.entries().size() != want.entries.size()) {
    return path + ": " + std::to_string(got.entries().size()) + " entries decoded, " + std::to_string(want.entries.size()) + " expected";
  }
  for (auto &kv : want.entries) {
    auto it = got.entries().find(kv.first);
    if (it == got.entries().end()) return path + ": entry with a " + std::to_string(kv.first.size()) + "-byte name missing";
    const std::vector<uint8_t> &d = it->second.data();
    if (d.size() != kv.second.size() || (!d.empty() && memcmp(d.data(), kv.second.data(), d.size()) != 0)) {
      return path + ": value of an entry changed (" + std::to_string(d.size()) + " bytes decoded, " + std::to_string(kv.second.size()) + " expected)";
    }
  }
  if (got.sub_metadatas().size() != want.subs.size()) {
    return path + ": " + std::to_string(got.sub_metadatas().size()) + " sub-metadata decoded, " + std::to_string(want.subs.size()) + " expected";
  }
  for (auto &kv : want.subs) {
    auto it = got.sub_metadatas().find(kv.first);
    if (it == got.sub_metadatas().end()) return path + ": sub-metadata missing (wrong nesting?)";
    std::string e = compare(kv.second, *it->second, path + "/sub[" + std::to_string(kv.first.size()) + "B name]");
    if (!e.empty()) return e;
  }
  return "";
}

static std::unique_ptr<draco::PointCloud> make_geometry(int kind) {
  const bool mesh = kind >= 2;
  std::unique_ptr<draco::PointCloud> pc(mesh ? new draco::Mesh() : new draco::PointCloud());
  const int n = 6;
  pc->set_num_points(n);
  draco::GeometryAttribute ga;
  ga.Init(draco::GeometryAttribute::POSITION, nullptr, 3, draco::DT_INT16, false, 6, 0);
  const int pa = pc->AddAttribute(ga, true, n);
  ga.Init(draco::GeometryAttribute::GENERIC, nullptr, 1, draco::DT_UINT8, false, 1, 0);
  const int gaid = pc->AddAttribute(ga, true, n);
  for (int i = 0; i < n; ++i) {
    int16_t p[3] = {static_cast<int16_t>(i % 3), static_cast<int16_t>(i / 3), static_cast<int16_t>(i * i % 5)};
    pc->attribute(pa)->SetAttributeValue(draco::AttributeValueIndex(i), p);
    uint8_t g = static_cast<uint8_t>(i * 7);
    pc->attribute(gaid)->SetAttributeValue(draco::AttributeValueIndex(i), &g);
  }
  pc->attribute(pa)->set_unique_id(3);
  pc->attribute(gaid)->set_unique_id(200);
  if (mesh) {
    auto *m = static_cast<draco::Mesh *>(pc.get());
    const int f[4][3] = {{0, 1, 3}, {1, 4, 3}, {1, 2, 4}, {2, 5, 4}};
    for (auto &t : f) m->AddFace({draco::PointIndex(t[0]), draco::PointIndex(t[1]), draco::PointIndex(t[2])});
  }
  return pc;
}

static std::string run_spec(const MetaSpec &s, bool *nontriv) {
  std::unique_ptr<draco::PointCloud> pc = make_geometry(s.geometry);
  std::unique_ptr<draco::GeometryMetadata> gm(new draco::GeometryMetadata());
  Model root;
  int max_depth = 0, nodes = 0;
  bool long_name = false;
  apply(s.root, gm.get(), &root, 0, &max_depth, &long_name, &nodes);
  std::vector<std::pair<uint32_t, Model>> att_models;
  std::vector<std::unique_ptr<draco::AttributeMetadata>> pending;
  for (size_t i = 0; i < s.att_ids.size(); ++i) {
    std::unique_ptr<draco::AttributeMetadata> am(new draco::AttributeMetadata());
    Model m;
    int d = 0;
    apply(s.att_nodes[i], am.get(), &m, 1, &d, &long_name, &nodes);
    max_depth = std::max(max_depth, d);
    am->set_att_unique_id(s.att_ids[i]);
    uint32_t id = s.att_ids[i];
    if (s.use_att_api) {
      // PointCloud::AddAttributeMetadata(att_id, ...) takes an attribute *index* and stores its unique id
      const int att_index = static_cast<int>(s.att_ids[i] % 2);
      id = pc->attribute(att_index)->unique_id();
      pending.push_back(std::move(am));
      att_models.push_back({id, m});
      continue;
    }
    if (gm->AddAttributeMetadata(std::move(am))) att_models.push_back({id, m});
  }
  pc->AddMetadata(std::move(gm));
  for (size_t i = 0; i < pending.size(); ++i) pc->AddAttributeMetadata(static_cast<int>(s.att_ids[i] % 2), std::move(pending[i]));
  if (s.use_att_api) {
    // the model is what the container now holds, in its order
    att_models.clear();
    // rebuild from the container itself is not an independent model; instead mirror AddAttributeMetadata: appended in order
    size_t k = 0;
    for (size_t i = 0; i < s.att_ids.size(); ++i, ++k) {
      Model m;
      int d = 0, nn = 0;
      bool ln = false;
      draco::Metadata scratch;
      apply(s.att_nodes[i], &scratch, &m, 1, &d, &ln, &nn);
      att_models.push_back({pc->attribute(static_cast<int>(s.att_ids[i] % 2))->unique_id(), m});
    }
  }
  draco::Encoder enc;
  enc.SetEncodingMethod(s.geometry == 0 || s.geometry == 2 ? 0 : 1);
  enc.SetSpeedOptions(5, 5);
  draco::EncoderBuffer eb;
  draco::Status st = s.geometry >= 2 ? enc.EncodeMeshToBuffer(*static_cast<draco::Mesh *>(pc.get()), &eb) : enc.EncodePointCloudToBuffer(*pc, &eb);
  count(std::string("geometry_") + (s.geometry == 0 ? "pc_sequential" : s.geometry == 1 ? "pc_kdtree" : s.geometry == 2 ? "mesh_sequential" : "mesh_edgebreaker"));
  if (!st.ok()) {
    count("encode_error");
    if (long_name) count("encode_error_with_name_over_255");
    else return "encoder refuses a metadata tree without over-long names: " + st.error_msg_string();
    return "";
  }
  if (long_name) return "encoder reports success although a name longer than 255 bytes cannot be represented";
  count("encode_ok");
  std::unique_ptr<char[]> blk(new char[eb.size()]);
  memcpy(blk.get(), eb.data(), eb.size());
  draco::DecoderBuffer db;
  db.Init(blk.get(), eb.size());
  draco::Decoder dec;
  std::unique_ptr<draco::PointCloud> out;
  if (s.geometry >= 2) {
    auto r = dec.DecodeMeshFromBuffer(&db);
    if (!r.ok()) return "decode failed: " + r.status().error_msg_string();
    out = std::move(r).value();
  } else {
    auto r = dec.DecodePointCloudFromBuffer(&db);
    if (!r.ok()) return "decode failed: " + r.status().error_msg_string();
    out = std::move(r).value();
  }
  const draco::GeometryMetadata *g = out->GetMetadata();
  if (!g) return "decoded geometry has no metadata";
  std::string e = compare(root, *g, "root");
  if (!e.empty()) return e;
  const auto &ams = g->attribute_metadatas();
  if (ams.size() != att_models.size()) return std::to_string(ams.size()) + " attribute metadata decoded, " + std::to_string(att_models.size()) + " expected";
  for (size_t i = 0; i < ams.size(); ++i) {
    if (ams[i]->att_unique_id() != att_models[i].first) return "attribute metadata #" + std::to_string(i) + " refers to unique id " + std::to_string(ams[i]->att_unique_id()) + ", expected " + std::to_string(att_models[i].first);
    e = compare(att_models[i].second, *ams[i], "attribute_metadata[" + std::to_string(i) + "]");
    if (!e.empty()) return e;
  }
  size_t total_entries = root.entries.size();
  for (auto &am : att_models) total_entries += am.second.entries.size();
  std::function<size_t(const Model &)> cnt = [&](const Model &m) {
    size_t c = m.entries.size();
    for (auto &kv : m.subs) c += cnt(kv.second);
    return c;
  };
  total_entries = cnt(root);
  for (auto &am : att_models) total_entries += cnt(am.second);
  *nontriv = (!root.subs.empty() || !att_models.empty()) && total_entries >= 2;
  count("depth_" + std::to_string(std::min(max_depth, 8)));
  if (!att_models.empty()) count("with_attribute_metadata");
  return "";
}

static std::string gen_name(bool allow_long) {
  const int c = W({30, 40, 15, 10, allow_long ? 5 : 0});
  int len = c == 0 ? R(0, 3) : c == 1 ? R(4, 20) : c == 2 ? R(21, 254) : c == 3 ? 255 : R(256, 400);
  std::string s;
  const bool ascii = P(60);
  for (int i = 0; i < len; ++i) s.push_back(static_cast<char>(ascii ? R('a', 'f') : R(0, 255)));
  return s;
}

static MetaNode gen_node(int depth, int max_depth, bool allow_long, bool big_values) {
  MetaNode n;
  const int ne = P(4) ? R(13, 300) : R(0, 12);
  for (int i = 0; i < ne; ++i) {
    std::string name = (ne > 12) ? "k" + std::to_string(i) : gen_name(allow_long && P(20));
    if (i > 0 && P(8)) name = n.names[R(0, i - 1)];  // duplicate name: overwrites
    const int kind = R(0, 5);
    const int lc = W({12, 50, 25, 10, big_values ? 3 : 0});
    int len = lc == 0 ? 0 : lc == 1 ? R(1, 16) : lc == 2 ? R(17, 200) : lc == 3 ? R(201, 3000) : R(3001, 65536);
    std::string v;
    if (len > 64) {
      SplitMix sm(U64());
      v.resize(len);
      for (auto &c : v) c = static_cast<char>(sm.next());
    } else {
      for (int k = 0; k < len; ++k) v.push_back(static_cast<char>(P(20) ? 0 : R(0, 255)));
    }
    n.names.push_back(name);
    n.values.push_back(v);
    n.kinds.push_back(kind);
  }
  if (depth < max_depth) {
    const int ns = depth == 0 ? R(0, 4) : W({45, 30, 15, 10});
    for (int i = 0; i < ns; ++i) {
      std::string name = gen_name(allow_long && P(20));
      if (i > 0 && P(10)) name = n.sub_names[R(0, i - 1)];                 // refused duplicate
      if (!n.names.empty() && P(10)) name = n.names[R(0, static_cast<int>(n.names.size()) - 1)];  // same name as an entry
      n.sub_names.push_back(name);
      n.subs.push_back(gen_node(depth + 1, max_depth, allow_long, false));
    }
  }
  return n;
}

static MetaSpec gen_spec(bool thorough) {
  MetaSpec s;
  const bool allow_long = P(12);
  const int max_depth = W({20, 35, 30, 15}) == 0 ? 0 : (P(70) ? R(1, 3) : R(4, 8));
  s.root = gen_node(0, max_depth, allow_long, thorough ? P(20) : P(5));
  const int na = W({45, 30, 15, 7, 3});
  static const uint32_t ids[] = {3, 200, 0, 1, 77, 0xffffffffu, 128, 16384};
  for (int i = 0; i < na; ++i) {
    s.att_ids.push_back(ids[R(0, 7)]);
    s.att_nodes.push_back(gen_node(1, std::min(max_depth, 3), allow_long, false));
  }
  s.geometry = R(0, 3);
  s.use_att_api = P(30);
  return s;
}

static void describe_node(const MetaNode &n, std::string *o, int depth) {
  *o += "{\"entries\":[";
  for (size_t i = 0; i < n.names.size() && i < 6; ++i) {
    *o += (i ? "," : "") + std::string("{\"name_len\":") + std::to_string(n.names[i].size()) + ",\"value_len\":" + std::to_string(n.values[i].size()) + ",\"kind\":" + std::to_string(n.kinds[i]) + "}";
  }
  *o += "],\"num_entries\":" + std::to_string(n.names.size()) + ",\"subs\":[";
  for (size_t i = 0; i < n.subs.size() && depth < 4; ++i) {
    if (i) *o += ",";
    describe_node(n.subs[i], o, depth + 1);
  }
  *o += "]}";
}
static std::string describe(const MetaSpec &s) {
  std::string o = "{\"geometry\":" + std::to_string(s.geometry) + ",\"attribute_metadata_ids\":" + jarr(s.att_ids) + ",\"root\":";
  describe_node(s.root, &o, 0);
  return o + "}";
}

int main(int argc, char **argv) {
  const bool thorough = std::string(env("VERIF_TIER", "quick")) == "thorough";
  stats().rule =
      "rapidcheck-generated metadata trees (depth 0..8, 0..12 (rarely 300) entries and 0..4 sub-metadata per node, names of "
      "0..255 arbitrary bytes and (classified) 256..400, values of 0..64 KiB added through every typed setter, duplicate "
      "names, 0..4 attribute metadata keyed by existing and non-existing unique ids) on a mesh / point cloud under all four "
      "methods; non-trivial = tree with a sub-metadata or attribute metadata and >= 2 entries; distinct by spec hash";
  Harness h;
  h.run = [&](const std::string &) {
    MetaSpec s = gen_spec(thorough);
    set_case("c11", to_tokens(s), describe(s));
    bool nt = false;
    std::string e = guarded([&] { return run_spec(s, &nt); });
    if (nt) {
      nontrivial(hash_tokens(to_tokens(s)));
      sample(describe(s), 3);
    }
    return e;
  };
  h.replay = [&](const std::string &, const std::vector<int64_t> &t) {
    MetaSpec s;
    if (!from_tokens(t, &s)) return std::string("bad replay tokens");
    bool nt = false;
    return guarded([&] { return run_spec(s, &nt); });
  };
  return harness_main(argc, argv, h);
}
