// C20 - keyframe animations round-trip with frame order preserved.
#include <cmath>

#include "common/vf.h"
#include "draco/animation/keyframe_animation.h"
#include "draco/animation/keyframe_animation_decoder.h"
#include "draco/animation/keyframe_animation_encoder.h"
#include "draco/compression/config/encoder_options.h"

using namespace vf;
using namespace draco;

struct Track {
  int32_t dtype = DT_FLOAT32;
  int32_t ncomp = 1;
  int32_t qbits = -1;
  std::vector<uint8_t> data;  // frames * ncomp * size
  template <class A>
  void io(A &a) {
    a(dtype); a(ncomp); a(qbits); a(data);
  }
};
struct AnimSpec {
  int32_t frames = 1;
  std::vector<float> timestamps;
  int32_t ts_position = 0;  // number of tracks added before SetTimestamps (0 = first)
  std::vector<Track> tracks;
  int32_t enc_speed = -1, dec_speed = -1;
  int32_t force_pred = -100;
  int32_t builtin = -1;       // use_built_in_attribute_compression: -1 unset, 0 off (raw values in the stream), 1 on
  int32_t delete_track = -1;  // index of a track removed again (PointCloud::DeleteAttribute) before encoding: ids stay sparse
  template <class A>
  void io(A &a) {
    a(frames); a(timestamps); a(ts_position); a(tracks); a(enc_speed); a(dec_speed); a(force_pred); a(delete_track); a(builtin);
  }
};

template <class T>
static int32_t add_track(KeyframeAnimation *an, const Track &t) {
  std::vector<T> v(t.data.size() / sizeof(T));
  if (!v.empty()) memcpy(v.data(), t.data.data(), v.size() * sizeof(T));
  return an->AddKeyframes<T>(static_cast<DataType>(t.dtype), static_cast<uint32_t>(t.ncomp), v);
}
static int32_t add_track_any(KeyframeAnimation *an, const Track &t) {
  switch (t.dtype) {
    case DT_INT8: return add_track<int8_t>(an, t);
    case DT_UINT8: return add_track<uint8_t>(an, t);
    case DT_INT16: return add_track<int16_t>(an, t);
    case DT_UINT16: return add_track<uint16_t>(an, t);
    case DT_INT32: return add_track<int32_t>(an, t);
    case DT_UINT32: return add_track<uint32_t>(an, t);
    default: return add_track<float>(an, t);
  }
}

static std::string run_spec(const AnimSpec &s, bool *nontriv) {
  KeyframeAnimation an;
  std::vector<int32_t> ids;
  bool ts_set = false;
  for (size_t i = 0; i <= s.tracks.size(); ++i) {
    if (static_cast<int>(i) == std::min<int>(s.ts_position, static_cast<int>(s.tracks.size())) && !ts_set) {
      if (!an.SetTimestamps(s.timestamps)) return "SetTimestamps refused a timestamp vector of the right length";
      ts_set = true;
    }
    if (i < s.tracks.size()) {
      const int32_t id = add_track_any(&an, s.tracks[i]);
      if (id < 0) return "AddKeyframes refused consistent data";
      ids.push_back(id);
    }
  }
  if (an.SetTimestamps(s.timestamps)) return "SetTimestamps accepted a second timestamp attribute";
  if (an.num_frames() != s.frames) return "num_frames before encoding is wrong";
  std::vector<char> alive(s.tracks.size(), 1);
  if (s.delete_track >= 0 && s.delete_track < static_cast<int>(s.tracks.size())) {
    an.DeleteAttribute(an.GetAttributeIdByUniqueId(ids[s.delete_track]));
    alive[s.delete_track] = 0;
    count("track_deleted_before_encoding");
  }
  EncoderOptions opt = EncoderOptions::CreateDefaultOptions();
  if (s.enc_speed >= 0) opt.SetSpeed(s.enc_speed, s.dec_speed);
  if (s.builtin >= 0) {
    opt.SetGlobalBool("use_built_in_attribute_compression", s.builtin != 0);
    count(s.builtin ? "builtin_compression_on_explicit" : "builtin_compression_off_raw_values");
  }
  for (size_t i = 0; i < s.tracks.size(); ++i) {
    if (!alive[i]) continue;
    const int att_index = an.GetAttributeIdByUniqueId(ids[i]);  // encoder options are keyed by attribute index
    if (s.tracks[i].qbits > 0) opt.SetAttributeInt(att_index, "quantization_bits", s.tracks[i].qbits);
    if (s.force_pred != -100) opt.SetAttributeInt(att_index, "prediction_scheme", s.force_pred);
  }
  KeyframeAnimationEncoder enc;
  EncoderBuffer eb;
  Status st = enc.EncodeKeyframeAnimation(an, opt, &eb);
  if (!st.ok()) {
    count("encode_error");
    return "";
  }
  count("encode_ok");
  std::unique_ptr<char[]> blk(new char[eb.size()]);
  memcpy(blk.get(), eb.data(), eb.size());
  DecoderBuffer db;
  db.Init(blk.get(), eb.size());
  KeyframeAnimationDecoder dec;
  DecoderOptions dopt;
  std::unique_ptr<KeyframeAnimation> out(new KeyframeAnimation());
  st = dec.Decode(dopt, &db, out.get());
  if (!st.ok()) return "encode reported success but decoding fails: " + st.error_msg_string();
  if (out->num_frames() != s.frames) return "decoded " + std::to_string(out->num_frames()) + " frames, " + std::to_string(s.frames) + " encoded";
  int nalive = 0;
  for (char a : alive) nalive += a;
  if (out->num_animations() != nalive) return "num_animations differs";
  const PointAttribute *ts = out->timestamps();
  if (!ts || ts->data_type() != DT_FLOAT32 || ts->num_components() != 1) return "timestamp attribute missing or changed";
  for (int f = 0; f < s.frames; ++f) {
    float v;
    ts->GetMappedValue(PointIndex(f), &v);
    if (memcmp(&v, &s.timestamps[f], 4) != 0) return "timestamp of frame " + std::to_string(f) + " changed (or frames reordered)";
  }
  for (size_t i = 0; i < s.tracks.size(); ++i) {
    const Track &t = s.tracks[i];
    if (!alive[i]) {
      if (out->keyframes(ids[i]) != nullptr) return "a deleted track is present after decoding";
      continue;
    }
    const PointAttribute *k = out->keyframes(ids[i]);
    if (!k) return "track not retrievable under the id it was added with (" + std::to_string(ids[i]) + ")";
    if (k->data_type() != t.dtype || k->num_components() != t.ncomp) return "track descriptor changed";
    const size_t stride = static_cast<size_t>(t.ncomp) * DataTypeLength(static_cast<DataType>(t.dtype));
    uint8_t buf[16 * 8];
    if (t.dtype == DT_FLOAT32 && t.qbits > 0) {
      // reference range: per-component minimum, largest extent
      std::vector<float> mn(t.ncomp), mx(t.ncomp);
      for (int c = 0; c < t.ncomp; ++c) memcpy(&mn[c], t.data.data() + 4 * c, 4), mx[c] = mn[c];
      for (int f = 0; f < s.frames; ++f)
        for (int c = 0; c < t.ncomp; ++c) {
          float x;
          memcpy(&x, t.data.data() + f * stride + 4 * c, 4);
          mn[c] = std::min(mn[c], x);
          mx[c] = std::max(mx[c], x);
        }
      float R = 0;
      for (int c = 0; c < t.ncomp; ++c) R = std::max(R, mx[c] - mn[c]);
      if (R == 0) R = 1.f;
      const double step = static_cast<double>(R) / (std::ldexp(1.0, t.qbits) - 1.0);
      for (int f = 0; f < s.frames; ++f) {
        k->GetMappedValue(PointIndex(f), buf);
        for (int c = 0; c < t.ncomp; ++c) {
          float x, y;
          memcpy(&x, t.data.data() + f * stride + 4 * c, 4);
          memcpy(&y, buf + 4 * c, 4);
          const double A = 8.0 * std::ldexp(1.0, -24) * std::max<double>(std::fabs(x), std::max<double>(std::fabs(mn[c]), R));
          if (!(std::fabs(static_cast<double>(y) - x) <= step / 2 + A)) {
            return "quantized track: frame " + std::to_string(f) + " component " + std::to_string(c) + " decoded " + std::to_string(y) + " for " + std::to_string(x) +
                   " (half step " + std::to_string(step / 2) + ")";
          }
        }
      }
      count("quantized_tracks");
    } else {
      for (int f = 0; f < s.frames; ++f) {
        k->GetMappedValue(PointIndex(f), buf);
        if (memcmp(buf, t.data.data() + f * stride, stride) != 0) return "unquantized track: frame " + std::to_string(f) + " changed (or frames reordered)";
      }
      count(t.dtype == DT_FLOAT32 ? "raw_float_tracks" : "integer_tracks");
    }
  }
  *nontriv = s.frames >= 2 && !s.tracks.empty();
  count(s.ts_position == 0 ? "timestamps_first" : s.ts_position >= static_cast<int>(s.tracks.size()) ? "timestamps_last" : "timestamps_between");
  count("tracks_" + std::to_string(s.tracks.size()));
  return "";
}

static AnimSpec gen_spec(bool thorough) {
  AnimSpec s;
  const int fc = W({15, 50, 30, 5});
  s.frames = fc == 0 ? R(1, 2) : fc == 1 ? R(3, 30) : fc == 2 ? R(31, 300) : R(301, thorough ? 10000 : 1500);
  const int tsc = W({50, 25, 25});
  SplitMix sm(U64());
  for (int f = 0; f < s.frames; ++f) {
    float t = tsc == 0 ? f * 0.25f : tsc == 1 ? static_cast<float>(sm.range(-50, 50)) : static_cast<float>(sm.unit() * 100 - 20);
    if (P(1)) t = -0.0f;
    s.timestamps.push_back(t);
  }
  const int nt = W({8, 25, 25, 15, 10, 6, 4, 4, 3});
  for (int i = 0; i < nt; ++i) {
    Track t;
    static const int types[] = {DT_FLOAT32, DT_INT8, DT_UINT8, DT_INT16, DT_UINT16, DT_INT32, DT_UINT32};
    t.dtype = types[W({52, 8, 8, 8, 8, 8, 8})];
    t.ncomp = P(70) ? R(1, 4) : R(5, 16);
    const bool quant = t.dtype == DT_FLOAT32 && P(55);
    // (while finding E1 was open the symbol coder's cost grew with the largest symbol: 22 / 24 bits then)
    const int qmax = open_finding("E1") ? (thorough ? 24 : 22) : 30;
    if (quant) t.qbits = W({20, 55, 25}) == 0 ? R(1, 8) : (P(80) ? R(9, 16) : R(17, qmax));
    const int wide = open_finding("E1") ? 20 : pick({20, 20, 29, 29, 31});
    const int sz = DataTypeLength(static_cast<DataType>(t.dtype));
    const double scale = std::pow(10.0, R(-4, 6));
    const double offs = P(70) ? 0 : R(-3, 3) * 1000.0;
    const int vc = W({40, 40, 20});
    const int narrow = P(45) ? R(1, 32) : 0;
    for (int f = 0; f < s.frames; ++f) {
      for (int c = 0; c < t.ncomp; ++c) {
        if (t.dtype == DT_FLOAT32) {
          float x;
          if (quant || vc < 2) {
            x = static_cast<float>(offs + scale * (vc == 0 ? std::sin(0.1 * f + c) : sm.unit()));
          } else {
            uint32_t b = static_cast<uint32_t>(sm.next());
            memcpy(&x, &b, 4);
          }
          t.data.insert(t.data.end(), reinterpret_cast<uint8_t *>(&x), reinterpret_cast<uint8_t *>(&x) + 4);
        } else {
          int64_t lo, hi;
          switch (t.dtype) {
            case DT_INT8: lo = -128; hi = 127; break;
            case DT_UINT8: lo = 0; hi = 255; break;
            case DT_INT16: lo = -32768; hi = 32767; break;
            case DT_UINT16: lo = 0; hi = 65535; break;
            case DT_INT32: lo = -(1ll << wide); hi = (1ll << wide) - 1; break;
            default: lo = 0; hi = (1ll << (wide + 1)) - 1;
          }
          if (narrow > 0) {  // values of a random bit width inside the type's range (raw byte-width boundaries)
            const int tb = 8 * sz, nb = 1 + (narrow - 1) % tb;
            if (lo < 0) { lo = -(1ll << (nb - 1)); hi = (1ll << (nb - 1)) - 1; } else { hi = (1ll << nb) - 1; }
          }
          int64_t v = vc == 0 ? (f * 3 + c) % 50 : lo + static_cast<int64_t>(sm.below(static_cast<uint64_t>(hi - lo + 1)));
          v = std::max(lo, std::min(hi, v));
          uint8_t b[8];
          memcpy(b, &v, 8);
          t.data.insert(t.data.end(), b, b + sz);
        }
      }
    }
    s.tracks.push_back(t);
  }
  s.ts_position = W({40, 30, 30}) == 0 ? 0 : (P(50) ? nt : R(0, std::max(0, nt)));
  if (P(70)) {
    s.enc_speed = R(0, 10);
    s.dec_speed = P(60) ? s.enc_speed : R(0, 10);
  }
  if (P(20)) s.force_pred = pick({-2, 0, 1, 4});
  if (nt >= 2 && P(25)) s.delete_track = R(0, nt - 1);
  if (P(30)) s.builtin = P(80) ? 0 : 1;
  return s;
}

static std::string describe(const AnimSpec &s) {
  std::string tr = "[";
  for (size_t i = 0; i < s.tracks.size(); ++i) {
    tr += (i ? "," : "") + J().num("data_type", s.tracks[i].dtype).num("components", s.tracks[i].ncomp).num("quantization_bits", s.tracks[i].qbits).done();
  }
  return J().num("frames", s.frames).num("tracks_added_before_timestamps", s.ts_position).raw("tracks", tr + "]").num("encoding_speed", s.enc_speed).num("forced_prediction", s.force_pred).num("built_in_compression", s.builtin)
      .raw("first_timestamps", "[" + [&] { std::string o; for (size_t i = 0; i < s.timestamps.size() && i < 6; ++i) o += (i ? "," : "") + std::to_string(s.timestamps[i]); return o; }() + "]")
      .done();
}

int main(int argc, char **argv) {
  const bool thorough = std::string(env("VERIF_TIER", "quick")) == "thorough";
  stats().rule =
      "rapidcheck-generated animations: 1..1500 (thorough 10^4) frames, sorted / unsorted / duplicate / negative timestamps, "
      "0..8 tracks of 1..16 components, float32 or int8..uint32, SetTimestamps before / between / after AddKeyframes, "
      "per-track quantization 1..30 bits on float tracks, speeds 0..10, forced prediction; non-trivial = >= 2 frames and "
      ">= 1 track; distinct by spec hash";
  Harness h;
  h.run = [&](const std::string &) {
    AnimSpec s = gen_spec(thorough);
    set_case("c20", to_tokens(s), describe(s));
    bool nt = false;
    std::string e = guarded([&] { return run_spec(s, &nt); });
    if (nt) {
      nontrivial(hash_tokens(to_tokens(s)));
      if (s.frames <= 40) sample(describe(s), 3);
    }
    return e;
  };
  h.replay = [&](const std::string &, const std::vector<int64_t> &t) {
    AnimSpec s;
    if (!from_tokens(t, &s)) return std::string("bad replay tokens");
    bool nt = false;
    return guarded([&] { return run_spec(s, &nt); });
  };
  return harness_main(argc, argv, h);
}
