// C08 - symbol entropy coding is lossless and self-delimiting.
#include "common/vf.h"
#include "draco/compression/config/compression_shared.h"
#include "draco/compression/entropy/symbol_decoding.h"
#include "draco/compression/entropy/symbol_encoding.h"
#include "draco/core/decoder_buffer.h"
#include "draco/core/encoder_buffer.h"
#include "draco/core/options.h"

using namespace vf;

struct SymSpec {
  int32_t n = 1;          // number of component groups
  int32_t comps = 1;      // total values = n * comps
  int32_t dist = 0;       // distribution class
  uint32_t maxv = 1;      // magnitude bound
  uint64_t seed = 0;      // bulk seed (used when explicit_vals is empty)
  std::vector<uint32_t> explicit_vals;
  int32_t method = -1;    // -1 auto, 0 tagged, 1 raw
  int32_t level = -1;     // -1 unset, 0..10
  int32_t tail = 0;       // number of trailing bytes
  uint64_t tail_seed = 0;
  int32_t second = 0;     // encode a second block (of n2 groups) right after the first
  template <class A>
  void io(A &a) {
    a(n); a(comps); a(dist); a(maxv); a(seed); a(explicit_vals); a(method); a(level); a(tail); a(tail_seed);
    a(second);
  }
};

static const char *kDist[] = {"uniform", "geometric", "constant", "outlier", "two_spikes", "all_distinct", "ladder"};

static std::vector<uint32_t> expand(const SymSpec &s, int block) {
  if (!s.explicit_vals.empty() && block == 0) return s.explicit_vals;
  const size_t total = static_cast<size_t>(block == 0 ? s.n : s.second) * s.comps;
  std::vector<uint32_t> v(total);
  SplitMix g(s.seed * 2 + block);
  const uint64_t m = static_cast<uint64_t>(s.maxv) + 1;
  switch (s.dist) {
    case 0:
      for (auto &x : v) x = static_cast<uint32_t>(g.below(m));
      break;
    case 1:
      for (auto &x : v) {
        int sh = 0;
        while (sh < 31 && (g.next() & 3) != 0) ++sh;  // P(stop)=1/4
        uint64_t lim = std::min<uint64_t>(m, 1ull << std::min(sh, 31));
        x = static_cast<uint32_t>(g.below(lim));
      }
      break;
    case 2:
      for (auto &x : v) x = s.maxv;
      break;
    case 3: {
      for (auto &x : v) x = static_cast<uint32_t>(g.below(std::min<uint64_t>(m, 4)));
      if (!v.empty()) v[g.below(v.size())] = s.maxv;
      break;
    }
    case 4:
      for (auto &x : v) x = (g.next() & 1) ? s.maxv : static_cast<uint32_t>(g.below(std::min<uint64_t>(m, 3)));
      break;
    case 5: {
      uint32_t base = static_cast<uint32_t>(g.below(std::max<uint64_t>(1, m > total ? m - total : 1)));
      for (size_t i = 0; i < v.size(); ++i) v[i] = static_cast<uint32_t>(std::min<uint64_t>(s.maxv, base + i));
      // shuffle
      for (size_t i = v.size(); i > 1; --i) std::swap(v[i - 1], v[g.below(i)]);
      break;
    }
    default:
      for (size_t i = 0; i < v.size(); ++i) {
        int bl = static_cast<int>(i % 32);
        uint64_t x = (1ull << bl) - 1 + g.below(1ull << bl);
        v[i] = static_cast<uint32_t>(std::min<uint64_t>(x, s.maxv));
      }
  }
  return v;
}

static SymSpec gen_spec(bool thorough) {
  SymSpec s;
  s.comps = W({50, 15, 20, 15}) + 1;
  const int sizeclass = W({32, 30, 23, 15});
  const int big = thorough ? 100000 : 5000;
  int n = sizeclass == 0 ? R(1, 8) : sizeclass == 1 ? R(9, 64) : sizeclass == 2 ? R(65, 600) : R(601, big);
  s.n = std::max(1, n / s.comps);
  s.dist = W({30, 20, 8, 12, 10, 12, 8});
  // long arrays: favour many distinct symbols so that the wide raw tables (bit lengths 9..18) are reached
  if (sizeclass == 3 && P(70)) s.dist = P(50) ? 0 : 5;
  // magnitude class: 2^k + {-1,0,1}, or arbitrary
  const int kmax = open_finding("E1") ? 30 : 32;
  const int kc = (sizeclass == 3 && (s.dist == 0 || s.dist == 5)) ? W({20, 60, 18, 2}) : W({75, 17, 6, 2});
  int k = kc == 0 ? R(0, 12) : kc == 1 ? R(13, 18) : kc == 2 ? R(19, 22) : R(23, kmax);
  // The raw scheme (and, while finding E1 is open, the encoder's entropy estimate in every mode) allocates and scans
  // max_value+1 counters, so cost and memory grow with the magnitude, not the length: magnitudes are capped per tier
  // where that applies and the cap is reported. With E1 fixed, only the forced raw scheme is capped.
  const int mem_cap_bits = thorough ? 24 : 22;
  uint64_t mv = (k >= 32 ? 0xffffffffull : (1ull << k)) + static_cast<uint64_t>(R(-1, 1));
  if (k > 0 && P(25)) mv = static_cast<uint64_t>(R64(0, static_cast<int64_t>(std::min<uint64_t>(mv, 0xffffffffull))));
  if (mv > 0xffffffffull) mv = 0xffffffffull;
  if (open_finding("E1") && mv >= (1ull << 31)) {
    mv = (1ull << 31) - 1;
    count("excluded_E1_symbol_ge_2^31");
  }
  s.method = W({50, 25, 25}) - 1;
  if (mv > (1ull << mem_cap_bits) + 1 && (s.method == 1 || open_finding("E1"))) {
    mv = (1ull << mem_cap_bits) + static_cast<uint64_t>(R(-1, 1));
    count("capped_by_memory_limit");
  }
  s.maxv = static_cast<uint32_t>(mv);
  s.level = P(40) ? -1 : R(0, 10);
  if (sizeclass == 3 && P(40)) s.level = R(8, 10);
  s.seed = U64();
  if (static_cast<int64_t>(s.n) * s.comps <= 48 && P(70)) {
    // small arrays are generated pick by pick so that they shrink well
    const int total = s.n * s.comps;
    for (int i = 0; i < total; ++i) {
      uint32_t v;
      switch (s.dist) {
        case 2: v = s.maxv; break;
        case 3: v = (i == total / 2) ? s.maxv : static_cast<uint32_t>(R(0, 3)); break;
        default: v = P(30) ? static_cast<uint32_t>(R(0, 7)) : static_cast<uint32_t>(R64(0, s.maxv));
      }
      if (v > s.maxv) v = s.maxv;
      s.explicit_vals.push_back(v);
    }
  }
  s.tail = P(70) ? R(0, 40) : 0;
  s.tail_seed = U64();
  s.second = P(35) ? R(1, 50) : 0;
  return s;
}

static std::string describe(const SymSpec &s, const std::vector<uint32_t> &v) {
  J j;
  j.num("groups", s.n).num("components", s.comps).str("dist", kDist[s.dist]).num("max_value", s.maxv);
  j.num("method", s.method).num("level", s.level).num("tail_bytes", s.tail).num("second_block_groups", s.second);
  j.raw("first_values", jarr(v, 24));
  return j.done();
}

static std::string run_spec(const SymSpec &s) {
  using namespace draco;
  std::vector<uint32_t> v = expand(s, 0);
  if (v.empty() || s.comps < 1 || v.size() % s.comps != 0) return "";
  Options opt;
  bool use_opt = false;
  if (s.method >= 0) {
    SetSymbolEncodingMethod(&opt, static_cast<SymbolCodingMethod>(s.method));
    use_opt = true;
  }
  if (s.level >= 0) {
    SetSymbolEncodingCompressionLevel(&opt, s.level);
    use_opt = true;
  }
  EncoderBuffer eb;
  // a few bytes in front so that the block does not start at offset 0
  const uint8_t prefix[3] = {0xAB, 0xCD, 0xEF};
  eb.Encode(prefix, 3);
  if (!EncodeSymbols(v.data(), static_cast<int>(v.size()), s.comps, use_opt ? &opt : nullptr, &eb)) {
    uint32_t mx = 0;
    for (uint32_t x : v) mx = std::max(mx, x);
    count(mx >= (1u << 31) ? "encode_rejected_value_needs_32_bits"
                           : s.method == 1 ? "encode_rejected_forced_raw" : "encode_rejected_other");
    if (mx >= (1u << 31)) nontrivial(hash_tokens(to_tokens(s)));
    return "";
  }
  count("encode_ok");
  const size_t end1 = eb.size();
  const uint8_t scheme = static_cast<uint8_t>(eb.data()[3]);
  count(scheme == 0 ? "scheme_tagged" : "scheme_raw");
  if (scheme == 1) count("raw_bit_length_" + std::to_string(static_cast<int>(eb.data()[4])));
  std::vector<uint32_t> v2;
  size_t end2 = end1;
  if (s.second > 0) {
    v2 = expand(s, 1);
    if (!EncodeSymbols(v2.data(), static_cast<int>(v2.size()), s.comps, use_opt ? &opt : nullptr, &eb)) {
      v2.clear();
    } else {
      count("second_block");
    }
    end2 = eb.size();
  }
  std::vector<char> bytes(eb.data(), eb.data() + eb.size());
  SplitMix tg(s.tail_seed);
  for (int i = 0; i < s.tail; ++i) bytes.push_back(static_cast<char>(tg.next()));
  // exact-size heap block so that one byte of over-read is visible to ASan
  std::unique_ptr<char[]> blk(new char[bytes.size()]);
  memcpy(blk.get(), bytes.data(), bytes.size());
  DecoderBuffer db;
  db.Init(blk.get(), bytes.size());
  db.set_bitstream_version(kDracoMeshBitstreamVersion);
  db.Advance(3);
  std::vector<uint32_t> out(v.size(), 0xdeadbeef);
  if (!DecodeSymbols(static_cast<uint32_t>(v.size()), s.comps, &db, out.data())) {
    return "DecodeSymbols failed on a block the encoder reported as encoded";
  }
  for (size_t i = 0; i < v.size(); ++i) {
    if (out[i] != v[i]) {
      return "decoded symbol " + std::to_string(i) + " = " + std::to_string(out[i]) + " != " + std::to_string(v[i]);
    }
  }
  if (static_cast<size_t>(db.decoded_size()) != end1) {
    return "decoder consumed " + std::to_string(db.decoded_size() - 3) + " bytes, encoder produced " +
           std::to_string(end1 - 3);
  }
  if (!v2.empty()) {
    std::vector<uint32_t> out2(v2.size(), 0xdeadbeef);
    if (!DecodeSymbols(static_cast<uint32_t>(v2.size()), s.comps, &db, out2.data())) {
      return "second block: DecodeSymbols failed";
    }
    if (out2 != v2) return "second block decoded differently";
    if (static_cast<size_t>(db.decoded_size()) != end2) return "second block: consumed size differs";
  }
  if (static_cast<size_t>(db.remaining_size()) != static_cast<size_t>(s.tail)) return "tail not found at the right position";
  // wrong count: memory safety only
  {
    DecoderBuffer d2;
    d2.Init(blk.get(), end1);
    d2.set_bitstream_version(kDracoMeshBitstreamVersion);
    d2.Advance(3);
    std::vector<uint32_t> o(v.size() + s.comps);
    (void)DecodeSymbols(static_cast<uint32_t>(v.size() + s.comps), s.comps, &d2, o.data());
  }
  std::set<uint32_t> distinct(v.begin(), v.end());
  if (distinct.size() >= 2) {
    nontrivial(hash_tokens(to_tokens(s)));
    sample(describe(s, v));
  }
  count(std::string("dist_") + kDist[s.dist]);
  count("components_" + std::to_string(s.comps));
  count(s.method < 0 ? "method_auto" : s.method == 0 ? "method_forced_tagged" : "method_forced_raw");
  int msb = 0;
  for (uint32_t x : v) {
    int b = 0;
    while (b < 32 && (x >> b)) ++b;
    msb = std::max(msb, b);
  }
  count(msb <= 8 ? "maxbits_0_8" : msb <= 18 ? "maxbits_9_18" : msb <= 24 ? "maxbits_19_24" : "maxbits_25_32");
  count(v.size() <= 64 ? "len_1_64" : v.size() <= 1000 ? "len_65_1000" : v.size() <= 10000 ? "len_1001_10000" : "len_10001_up");
  return "";
}

int main(int argc, char **argv) {
  const bool thorough = std::string(env("VERIF_TIER", "quick")) == "thorough";
  stats().rule =
      "rapidcheck-generated symbol arrays (length/components/distribution/magnitude/method/level classes); "
      "non-trivial = encode succeeded and the array holds >= 2 distinct symbols; distinct by spec hash";
  Harness h;
  h.run = [&](const std::string &) {
    SymSpec s = gen_spec(thorough);
    set_case("c08", to_tokens(s), describe(s, expand(s, 0)));
    return run_spec(s);
  };
  h.replay = [&](const std::string &, const std::vector<int64_t> &t) {
    SymSpec s;
    if (!from_tokens(t, &s)) return std::string("bad replay tokens");
    return run_spec(s);
  };
  h.probe = [&](const std::string &id) -> std::string {
    if (id == "E1") {
      // symbol >= 2^31: exercised in a child-safe way - the probe itself may abort under ASan; the driver
      // treats a crash of the probe process as "still reproduces".
      SymSpec s;
      s.n = 4;
      s.explicit_vals = {1, 2, 0x80000000u, 3};
      s.maxv = 0x80000000u;
      return run_spec(s);
    }
    return "";
  };
  return harness_main(argc, argv, h);
}
