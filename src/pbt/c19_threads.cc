// C19 - independent encoder / decoder instances can run concurrently.
// Built twice: with ThreadSanitizer (any data race between the threads is reported whatever the interleaving was) and
// with ASan+UBSan. In both builds every job's result is compared with the result of the same job run alone.
#include <atomic>
#include <condition_variable>
#include <mutex>
#include <thread>

#include "common/geom.h"
#include "draco/io/obj_decoder.h"
#include "draco/io/obj_encoder.h"
#include "draco/io/ply_decoder.h"
#include "draco/io/ply_encoder.h"

using namespace vf;
using namespace vg;

static bool g_thorough = false;

struct Job {
  CaseSpec cs;
  int32_t kind = 0;  // 0 encode+decode, 1 encode + decode with skip mask, 2 OBJ buffer round trip, 3 PLY buffer round trip
  template <class A>
  void io(A &a) {
    a(cs); a(kind);
  }
};
struct RoundSpec {
  std::vector<std::vector<Job>> threads;
  int32_t repeat = 1;  // "hot" rounds: every thread repeats its (small) jobs this many times
  template <class A>
  void io(A &a) {
    a(threads); a(repeat);
  }
};

static std::string run_job(const Job &j) {
  std::unique_ptr<draco::PointCloud> pc = build_geometry(j.cs.g);
  Digest d;
  if (j.kind <= 1) {
    EncodeResult er = encode_case(j.cs, *pc);
    d.bytes(er.bytes.data(), er.bytes.size());
    d.val<int>(er.status.ok());
    d.val<uint64_t>(er.reported_points);
    if (!er.status.ok()) return "encode-error:" + d.hex();
    DecodeResult r = decode_bytes(er.bytes, j.kind == 1 ? std::vector<int>{0, 1, 3} : std::vector<int>{});
    if (!r.status.ok()) return "decode-error:" + r.status.error_msg_string() + d.hex();
    const draco::Mesh *m = r.geometry_type == 1 ? static_cast<const draco::Mesh *>(r.geom.get()) : nullptr;
    return d.hex() + ":" + ordered_digest(*r.geom, m);
  }
  draco::EncoderBuffer eb;
  bool ok;
  const bool mesh = j.cs.g.is_mesh && j.cs.g.nfaces() > 0;
  if (j.kind == 2) {
    draco::ObjEncoder e;
    ok = mesh ? e.EncodeToBuffer(static_cast<const draco::Mesh &>(*pc), &eb) : e.EncodeToBuffer(*pc, &eb);
  } else {
    draco::PlyEncoder e;
    ok = mesh ? e.EncodeToBuffer(static_cast<const draco::Mesh &>(*pc), &eb) : e.EncodeToBuffer(*pc, &eb);
  }
  d.bytes(eb.data(), eb.size());
  if (!ok) return "io-encode-refused:" + d.hex();
  draco::DecoderBuffer db;
  db.Init(eb.data(), eb.size());
  std::unique_ptr<draco::PointCloud> out(mesh ? new draco::Mesh() : new draco::PointCloud());
  draco::Status st;
  if (j.kind == 2) {
    draco::ObjDecoder dec;
    st = mesh ? dec.DecodeFromBuffer(&db, static_cast<draco::Mesh *>(out.get())) : dec.DecodeFromBuffer(&db, out.get());
  } else {
    draco::PlyDecoder dec;
    st = mesh ? dec.DecodeFromBuffer(&db, static_cast<draco::Mesh *>(out.get())) : dec.DecodeFromBuffer(&db, out.get());
  }
  if (!st.ok()) return "io-decode-error:" + d.hex();
  return d.hex() + ":" + ordered_digest(*out, mesh ? static_cast<const draco::Mesh *>(out.get()) : nullptr);
}

// Sense-reversing spin barrier: in hot rounds all threads start every repetition at the same instant, so that the
// first microseconds of a job (option parsing, set-up) overlap in all threads each time.
struct SpinBarrier {
  explicit SpinBarrier(int n) : n_(n) {}
  void wait() {
    const int gen = gen_.load(std::memory_order_acquire);
    if (count_.fetch_add(1, std::memory_order_acq_rel) + 1 == n_) {
      count_.store(0, std::memory_order_relaxed);
      gen_.store(gen + 1, std::memory_order_release);
    } else {
      int spins = 0;
      while (gen_.load(std::memory_order_acquire) == gen)
        if (++spins > 2000) std::this_thread::yield();
    }
  }
  const int n_;
  std::atomic<int> count_{0}, gen_{0};
};

static std::string run_round(const RoundSpec &r, bool *nontriv) {
  const size_t n = r.threads.size();
  SpinBarrier barrier(static_cast<int>(n));
  // expected results: every job alone, before any thread is started
  std::vector<std::vector<std::string>> want(n), got(n);
  for (size_t t = 0; t < n; ++t)
    for (auto &j : r.threads[t]) want[t].push_back(run_job(j));
  std::mutex mu;
  std::condition_variable cv;
  size_t ready = 0;
  bool go = false;
  std::vector<std::thread> th;
  std::vector<std::string> errors(n);
  for (size_t t = 0; t < n; ++t) {
    th.emplace_back([&, t] {
      {
        std::unique_lock<std::mutex> lk(mu);
        ++ready;
        cv.notify_all();
        cv.wait(lk, [&] { return go; });
      }
      for (int rep = 0; rep < std::max(1, r.repeat); ++rep) {
        if (r.repeat > 1) barrier.wait();  // (every thread takes part in every repetition, also after an exception)
        for (size_t k = 0; k < r.threads[t].size(); ++k) {
          std::string res;
          try {
            res = run_job(r.threads[t][k]);
          } catch (const std::exception &e) {
            if (errors[t].empty()) errors[t] = std::string("exception in thread: ") + e.what();
            res = "exception";
          }
          if (rep == 0) {
            got[t].push_back(res);
          } else if (res != got[t][k] && got[t][k] == want[t][k]) {
            got[t][k] = res;  // keep the first deviating repetition
          }
        }
      }
    });
  }
  {
    std::unique_lock<std::mutex> lk(mu);
    cv.wait(lk, [&] { return ready == n; });
    go = true;
    cv.notify_all();
  }
  for (auto &x : th) x.join();
  std::map<int, int> kinds;
  for (size_t t = 0; t < n; ++t) {
    if (!errors[t].empty()) return errors[t];
    if (got[t] != want[t]) {
      for (size_t k = 0; k < want[t].size(); ++k)
        if (k >= got[t].size() || got[t][k] != want[t][k])
          return "thread " + std::to_string(t) + " job " + std::to_string(k) + " (kind " + std::to_string(r.threads[t][k].kind) + "): the result differs from the same job run alone";
    }
    if (!r.threads[t].empty()) kinds[r.threads[t][0].kind]++;
  }
  for (auto &kv : kinds) *nontriv |= kv.second >= 2;
  count("threads_" + std::to_string(n));
  if (r.repeat > 1) count("hot_rounds");
  return "";
}

static RoundSpec gen_round(std::vector<std::string> *classes) {
  RoundSpec r;
  GenCfg cfg;
  cfg.thorough = g_thorough;
  cfg.allow_large = false;
  cfg.allow_lattice = false;
  cfg.max_extra_atts = 2;
  if (P(35)) {
    // Hot round: many threads, each repeating one or two *small* encode/decode jobs a few hundred times. Ordinary
    // rounds spend their time inside long encode bodies; the short shared paths (option parsing and lookup, factory
    // and set-up code, anything that might keep state in a library or libc static) overlap only when they are
    // executed very often at the same time.
    const int n = pick({4, 8, 8, 16});
    r.repeat = g_thorough ? 600 : 200;
    for (int t = 0; t < n; ++t) {
      std::vector<Job> jobs;
      const int nj = R(1, 2);
      for (int k = 0; k < nj; ++k) {
        Job j;
        for (int tries = 0; tries < 8; ++tries) {
          j.cs = gen_case(cfg, classes);
          if (j.cs.g.npoints <= 40) break;
        }
        if (j.cs.g.npoints > 40) continue;
        j.kind = P(75) ? 0 : 1;
        jobs.push_back(j);
      }
      r.threads.push_back(jobs);
    }
    return r;
  }
  const int n = pick({2, 2, 4, 4, 8, 16});
  for (int t = 0; t < n; ++t) {
    std::vector<Job> jobs;
    const int nj = R(3, g_thorough ? 10 : 6);
    const int first_kind = W({50, 20, 15, 15});
    for (int k = 0; k < nj; ++k) {
      Job j;
      j.cs = gen_case(cfg, classes);
      j.kind = k == 0 ? first_kind : W({50, 20, 15, 15});
      if (j.kind >= 2) {
        // OBJ / PLY jobs only carry what the formats represent (float32 xyz positions, float32 normals (3) and tex
        // coords (2), uint8 colours): other attributes are dropped from the job's geometry, other position types fall
        // back to an encode/decode job. (The PLY writer emits a broken header for other data types and the PLY reader
        // does not bound-check it - outside the listed properties, see DESIGN.md.)
        GeomSpec &g = j.cs.g;
        const int pa = g.pos_att();
        if (pa < 0 || g.atts[pa].dtype != draco::DT_FLOAT32 || g.atts[pa].ncomp != 3) {
          j.kind = 0;
        } else {
          std::set<int> have;
          for (size_t i = g.atts.size(); i-- > 0;) {
            const AttSpec &a = g.atts[i];
            bool okk = false;
            if (a.type == GeometryAttribute::POSITION) okk = static_cast<int>(i) == pa;
            else if (a.type == GeometryAttribute::NORMAL) okk = a.dtype == draco::DT_FLOAT32 && a.ncomp == 3;
            else if (a.type == GeometryAttribute::TEX_COORD) okk = a.dtype == draco::DT_FLOAT32 && a.ncomp == 2;
            else if (a.type == GeometryAttribute::COLOR) okk = a.dtype == draco::DT_UINT8 && a.ncomp <= 4;
            if (okk && !have.insert(a.type).second) okk = false;
            if (!okk) {
              g.atts.erase(g.atts.begin() + i);
              if (i < j.cs.o.per_att.size()) j.cs.o.per_att.erase(j.cs.o.per_att.begin() + i);
            }
          }
          if (!g.is_mesh || g.nfaces() == 0) {
            bool all_identity = true;
            for (auto &a : g.atts) all_identity &= a.identity && a.nvalues == g.npoints;
            if (!all_identity) j.kind = 0;  // (the OBJ writer represents clouds with one value per point only)
          }
        }
      }
      jobs.push_back(j);
    }
    r.threads.push_back(jobs);
  }
  return r;
}

static std::string describe(const RoundSpec &r) {
  std::string s = "[";
  for (size_t t = 0; t < r.threads.size(); ++t) {
    s += (t ? "," : "") + std::string("[");
    for (size_t k = 0; k < r.threads[t].size(); ++k) {
      const Job &j = r.threads[t][k];
      s += (k ? "," : "") + J().num("kind", j.kind).str("geometry", j.cs.g.is_mesh ? "mesh" : "point_cloud").num("points", j.cs.g.npoints).num("faces", static_cast<double>(j.cs.g.nfaces())).num("method", j.cs.o.method).done();
    }
    s += "]";
  }
  return "{\"threads\":" + s + "]}";
}

int main(int argc, char **argv) {
  g_thorough = std::string(env("VERIF_TIER", "quick")) == "thorough";
  stats().rule =
      "rounds of N in {2,4,8,16} threads released together, each running 3..6 (thorough 10) generated jobs (encode + decode, "
      "decode with skipped transforms, OBJ and PLY buffer round trips) on its own objects; a third of the rounds are hot rounds "
      "(4..16 threads each repeating one or two jobs on geometries of <= 40 points 200 (thorough 600) times); oracle: ThreadSanitizer / ASan "
      "report nothing and every job's bytes and ordered digest equal the same job run alone; non-trivial = at least two "
      "threads start with the same kind of job; distinct by round hash";
  Harness h;
  h.run = [&](const std::string &mode) {
    std::vector<std::string> classes;
    RoundSpec r = gen_round(&classes);
    set_case(mode, to_tokens(r), describe(r));
    bool nt = false;
    std::string e = guarded([&] { return run_round(r, &nt); });
    if (nt) {
      nontrivial(hash_tokens(to_tokens(r)));
      if (r.threads.size() <= 4) sample(describe(r), 2);
    }
    return e;
  };
  h.replay = [&](const std::string &, const std::vector<int64_t> &t) {
    RoundSpec r;
    if (!from_tokens(t, &r)) return std::string("bad replay tokens");
    bool nt = false;
    return guarded([&] { return run_round(r, &nt); });
  };
  return harness_main(argc, argv, h);
}
