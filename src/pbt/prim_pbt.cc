// C16 - prediction-correction transforms are exactly invertible      (modes c16, c16enum)
// C17 - bit / varint / buffer primitives round-trip every value        (modes c17, c17enum)
#include "common/vf.h"
#include "draco/compression/attributes/normal_compression_utils.h"
#include "draco/compression/attributes/prediction_schemes/prediction_scheme_normal_octahedron_canonicalized_decoding_transform.h"
#include "draco/compression/attributes/prediction_schemes/prediction_scheme_normal_octahedron_canonicalized_encoding_transform.h"
#include "draco/compression/attributes/prediction_schemes/prediction_scheme_wrap_decoding_transform.h"
#include "draco/compression/attributes/prediction_schemes/prediction_scheme_wrap_encoding_transform.h"
#include "draco/compression/bit_coders/adaptive_rans_bit_decoder.h"
#include "draco/compression/bit_coders/adaptive_rans_bit_encoder.h"
#include "draco/compression/bit_coders/direct_bit_decoder.h"
#include "draco/compression/bit_coders/direct_bit_encoder.h"
#include "draco/compression/bit_coders/folded_integer_bit_decoder.h"
#include "draco/compression/bit_coders/folded_integer_bit_encoder.h"
#include "draco/compression/bit_coders/rans_bit_decoder.h"
#include "draco/compression/bit_coders/rans_bit_encoder.h"
#include "draco/compression/bit_coders/symbol_bit_decoder.h"
#include "draco/compression/bit_coders/symbol_bit_encoder.h"
#include "draco/compression/config/compression_shared.h"
#include "draco/compression/entropy/ans.h"
#include "draco/core/bit_utils.h"
#include "draco/core/decoder_buffer.h"
#include "draco/core/encoder_buffer.h"
#include "draco/core/varint_decoding.h"
#include "draco/core/varint_encoding.h"

using namespace vf;
using namespace draco;

static bool g_thorough = false;

// =================================================================================================
// C16 wrap transform
struct WrapSpec {
  int32_t mn = 0, mx = 0;
  int32_t ncomp = 1;
  std::vector<int32_t> orig, pred;  // k * ncomp each; all orig inside [mn, mx]
  template <class A>
  void io(A &a) {
    a(mn); a(mx); a(ncomp); a(orig); a(pred);
  }
};

static std::string run_wrap(const WrapSpec &s, bool *nontriv) {
  typedef PredictionSchemeWrapEncodingTransform<int32_t, int32_t> Enc;
  typedef PredictionSchemeWrapDecodingTransform<int32_t, int32_t> Dec;
  const int64_t span = static_cast<int64_t>(s.mx) - s.mn;
  if (span < 0 || span >= 2147483647ll || s.ncomp < 1) return "";  // outside the stated domain
  // encoder-side transform is initialised from data that contains min and max
  std::vector<int32_t> data = s.orig;
  for (int c = 0; c < s.ncomp; ++c) data.push_back(s.mn);
  for (int c = 0; c < s.ncomp; ++c) data.push_back(s.mx);
  Enc enc;
  enc.Init(data.data(), static_cast<int>(data.size()), s.ncomp);
  EncoderBuffer eb;
  if (!enc.EncodeTransformData(&eb)) return "EncodeTransformData failed";
  Dec dec;
  dec.Init(s.ncomp);
  DecoderBuffer db;
  db.Init(eb.data(), eb.size());
  if (!dec.DecodeTransformData(&db)) return "DecodeTransformData rejects a range the encoder wrote: [" + std::to_string(s.mn) + "," + std::to_string(s.mx) + "]";
  if (db.remaining_size() != 0) return "transform data not consumed exactly";
  const int64_t N = span + 1;
  const size_t k = s.orig.size() / s.ncomp;
  std::vector<int32_t> corr(s.ncomp), back(s.ncomp);
  for (size_t i = 0; i < k; ++i) {
    const int32_t *o = s.orig.data() + i * s.ncomp, *p = s.pred.data() + i * s.ncomp;
    enc.ComputeCorrection(o, p, corr.data());
    dec.ComputeOriginalValue(p, corr.data(), back.data());
    for (int c = 0; c < s.ncomp; ++c) {
      if (back[c] != o[c]) {
        return "wrap [" + std::to_string(s.mn) + "," + std::to_string(s.mx) + "]: orig " + std::to_string(o[c]) + " pred " + std::to_string(p[c]) +
               " -> correction " + std::to_string(corr[c]) + " -> decoded " + std::to_string(back[c]);
      }
      const int64_t half = N / 2;
      if (corr[c] < -half || corr[c] > half) {
        return "wrap [" + std::to_string(s.mn) + "," + std::to_string(s.mx) + "]: correction " + std::to_string(corr[c]) + " outside [-(N/2), N/2], N = " + std::to_string(N);
      }
      if (p[c] < s.mn || p[c] > s.mx) *nontriv = true;
      if (static_cast<int64_t>(o[c]) - std::max<int64_t>(s.mn, std::min<int64_t>(s.mx, p[c])) != corr[c]) *nontriv = true;  // wrapped
    }
  }
  return "";
}

static WrapSpec gen_wrap() {
  WrapSpec s;
  s.ncomp = W({60, 20, 10, 10}) + 1;
  const int rc = W({30, 25, 20, 25});
  int64_t mn, mx;
  auto edge = [&]() -> int64_t {
    static const int64_t e[] = {INT32_MIN, INT32_MIN + 1, -1, 0, 1, INT32_MAX - 1, INT32_MAX, -(1ll << 30), (1ll << 30)};
    return e[R(0, 8)] + (P(50) ? R(-3, 3) : 0);
  };
  if (rc == 0) {
    mn = R(-20, 20);
    mx = mn + R(0, 12);
  } else if (rc == 1) {
    mn = R64(INT32_MIN, INT32_MAX);
    mx = mn + R64(0, 1 << 16);
  } else if (rc == 2) {
    mn = edge();
    mx = mn + (P(50) ? R64(0, 4) : R64(0, 2147483646ll));
  } else {
    mn = R64(INT32_MIN, INT32_MAX);
    mx = R64(INT32_MIN, INT32_MAX);
    if (mn > mx) std::swap(mn, mx);
  }
  mn = std::max<int64_t>(INT32_MIN, std::min<int64_t>(INT32_MAX, mn));
  mx = std::max<int64_t>(mn, std::min<int64_t>(INT32_MAX, mx));
  if (mx - mn >= 2147483647ll) mx = mn + 2147483646ll;  // stated domain: max - min < 2^31 - 1
  s.mn = static_cast<int32_t>(mn);
  s.mx = static_cast<int32_t>(mx);
  const int k = R(1, 12);
  for (int i = 0; i < k * s.ncomp; ++i) {
    const int oc = W({30, 15, 15, 40});
    const int64_t o = oc == 0 ? mn + R64(0, std::min<int64_t>(mx - mn, 8)) : oc == 1 ? mn : oc == 2 ? mx : R64(mn, mx);
    s.orig.push_back(static_cast<int32_t>(std::min(mx, std::max(mn, o))));
    const int pc = W({25, 25, 25, 25});
    int64_t p = pc == 0 ? R64(mn, mx) : pc == 1 ? edge() : pc == 2 ? (P(50) ? mn - R64(1, 1000) : mx + R64(1, 1000)) : R64(INT32_MIN, INT32_MAX);
    p = std::max<int64_t>(INT32_MIN, std::min<int64_t>(INT32_MAX, p));
    s.pred.push_back(static_cast<int32_t>(p));
  }
  return s;
}

// C16 canonicalized octahedral transform
struct OctSpec {
  int32_t q = 8;
  std::vector<int32_t> pts;  // quadruples: orig s,t  pred s,t - all canonical
  template <class A>
  void io(A &a) {
    a(q); a(pts);
  }
};

static bool is_canonical(const OctahedronToolBox &tb, int32_t s, int32_t t) {
  const int32_t mv = (1 << tb.quantization_bits()) - 2;
  if (s < 0 || t < 0 || s > mv || t > mv) return false;
  int32_t cs, ct;
  tb.CanonicalizeOctahedralCoords(s, t, &cs, &ct);
  return cs == s && ct == t;
}

static std::string check_oct_pair(int q, int32_t os, int32_t ot, int32_t ps, int32_t pt, bool *nontriv) {
  typedef PredictionSchemeNormalOctahedronCanonicalizedEncodingTransform<int32_t> Enc;
  typedef PredictionSchemeNormalOctahedronCanonicalizedDecodingTransform<int32_t> Dec;
  const int32_t maxq = (1 << q) - 1;
  static thread_local int cached_q = -1;
  static thread_local std::unique_ptr<Enc> enc;
  static thread_local std::unique_ptr<Dec> dec;
  if (cached_q != q) {
    enc.reset(new Enc(maxq));
    dec.reset(new Dec());
    EncoderBuffer eb;
    if (!enc->EncodeTransformData(&eb)) return "EncodeTransformData failed";
    DecoderBuffer db;
    db.Init(eb.data(), eb.size());
    if (!dec->DecodeTransformData(&db)) return "DecodeTransformData rejects q = " + std::to_string(q);
    if (!enc->AreCorrectionsPositive() || !dec->AreCorrectionsPositive()) return "AreCorrectionsPositive is false";
    cached_q = q;
  }
  const int32_t o[2] = {os, ot}, p[2] = {ps, pt};
  int32_t c[2], b[2];
  enc->ComputeCorrection(o, p, c);
  dec->ComputeOriginalValue(p, c, b);
  if (b[0] != os || b[1] != ot) {
    return "octahedral q=" + std::to_string(q) + ": orig (" + std::to_string(os) + "," + std::to_string(ot) + ") pred (" + std::to_string(ps) + "," + std::to_string(pt) +
           ") -> correction (" + std::to_string(c[0]) + "," + std::to_string(c[1]) + ") -> decoded (" + std::to_string(b[0]) + "," + std::to_string(b[1]) + ")";
  }
  if (c[0] < 0 || c[1] < 0 || c[0] > maxq - 1 || c[1] > maxq - 1) {
    return "octahedral q=" + std::to_string(q) + ": correction (" + std::to_string(c[0]) + "," + std::to_string(c[1]) + ") outside [0, 2^q-2]";
  }
  const int32_t cv = (maxq - 1) / 2;
  const bool pred_in_diamond = std::abs(ps - cv) + std::abs(pt - cv) <= cv;
  if (!pred_in_diamond || ps > cv || pt > cv) *nontriv = true;  // inversion or rotation needed
  return "";
}

static std::string run_oct(const OctSpec &s, bool *nontriv) {
  OctahedronToolBox tb;
  if (!tb.SetQuantizationBits(s.q)) return "";
  for (size_t i = 0; i + 3 < s.pts.size(); i += 4) {
    if (!is_canonical(tb, s.pts[i], s.pts[i + 1]) || !is_canonical(tb, s.pts[i + 2], s.pts[i + 3])) continue;  // outside the domain
    std::string e = check_oct_pair(s.q, s.pts[i], s.pts[i + 1], s.pts[i + 2], s.pts[i + 3], nontriv);
    if (!e.empty()) return e;
  }
  return "";
}

static OctSpec gen_oct() {
  OctSpec s;
  s.q = W({30, 70}) == 0 ? R(2, 8) : R(7, 30);
  OctahedronToolBox tb;
  tb.SetQuantizationBits(s.q);
  const int32_t mv = (1 << s.q) - 2, cv = mv / 2;
  auto coord = [&]() -> int32_t {
    const int c = W({20, 20, 20, 10, 30});
    int64_t v = c == 0 ? R(0, 3) : c == 1 ? mv - R(0, 3) : c == 2 ? cv + R(-3, 3) : c == 3 ? (P(50) ? cv / 2 : cv + cv / 2) + R(-2, 2) : R64(0, mv);
    return static_cast<int32_t>(std::max<int64_t>(0, std::min<int64_t>(mv, v)));
  };
  auto point = [&](int32_t *ps, int32_t *pt) {
    int32_t a = coord(), b = coord();
    if (P(25)) b = std::max(0, std::min(mv, (P(50) ? cv - a : a - cv) + cv + R(-1, 1)));  // near a diamond edge
    tb.CanonicalizeOctahedralCoords(a, b, ps, pt);
  };
  const int k = R(1, 16);
  for (int i = 0; i < k; ++i) {
    int32_t a, b, c, d;
    point(&a, &b);
    point(&c, &d);
    s.pts.insert(s.pts.end(), {a, b, c, d});
  }
  return s;
}

// exhaustive sub-spaces of C16
static std::string enum_c16(int shard, int nshards) {
  // (a) wrap: all ranges inside [-6, 6], every orig in range, every pred in [-40, 40], one component
  uint64_t idx = 0;
  for (int mn = -6; mn <= 6; ++mn) {
    for (int mx = mn; mx <= 6; ++mx) {
      if ((idx++ % nshards) != static_cast<uint64_t>(shard)) continue;
      WrapSpec s;
      s.mn = mn;
      s.mx = mx;
      for (int o = mn; o <= mx; ++o)
        for (int p = -40; p <= 40; ++p) {
          s.orig.push_back(o);
          s.pred.push_back(p);
        }
      bool nt = false;
      std::string e = run_wrap(s, &nt);
      stats().evaluations += s.orig.size();
      count("wrap_tuples_enumerated", s.orig.size());
      if (!e.empty()) {
        set_case("c16wrap", to_tokens(s), "{\"min\":" + std::to_string(mn) + ",\"max\":" + std::to_string(mx) + "}");
        return e;
      }
      if (nt) nontrivial(hash_tokens({mn, mx}));
    }
  }
  // (b) octahedral: all pairs of canonical (s,t) for q = 2..Q
  const int Q = g_thorough ? 6 : 5;
  for (int q = 2; q <= Q; ++q) {
    OctahedronToolBox tb;
    tb.SetQuantizationBits(q);
    const int32_t mv = (1 << q) - 2;
    std::vector<std::pair<int32_t, int32_t>> canon;
    for (int32_t s = 0; s <= mv; ++s)
      for (int32_t t = 0; t <= mv; ++t)
        if (is_canonical(tb, s, t)) canon.push_back({s, t});
    count("octahedral_canonical_points_q" + std::to_string(q), shard == 0 ? canon.size() : 0);
    for (size_t i = static_cast<size_t>(shard); i < canon.size(); i += static_cast<size_t>(nshards)) {
      bool nt = false;
      for (size_t j = 0; j < canon.size(); ++j) {
        std::string e = check_oct_pair(q, canon[i].first, canon[i].second, canon[j].first, canon[j].second, &nt);
        if (!e.empty()) {
          OctSpec s;
          s.q = q;
          s.pts = {canon[i].first, canon[i].second, canon[j].first, canon[j].second};
          set_case("c16oct", to_tokens(s), "{\"q\":" + std::to_string(q) + "}");
          return e;
        }
      }
      stats().evaluations += canon.size();
      count("octahedral_pairs_enumerated", canon.size());
      if (nt) nontrivial(hash_tokens({q, canon[i].first, canon[i].second}));
    }
  }
  if (stats().samples.empty()) {
    sample("{\"wrap\":{\"min\":-6,\"max\":6,\"orig\":\"every value in range\",\"pred\":\"-40..40\"}}");
    sample("{\"octahedral\":{\"q\":5,\"pairs\":\"every (orig, pred) pair of canonical (s,t)\"}}");
  }
  stats().have_exhaustive = true;
  stats().exhaustive = true;
  return "";
}

// =================================================================================================
// C17
struct BitOps {
  std::vector<uint8_t> nbits;   // 0 = single EncodeBit, 1..32 = EncodeLeastSignificantBits32
  std::vector<uint32_t> value;
  uint64_t seed = 0;            // bulk part: `bulk_len` single bits with P(1) = bias/512
  uint32_t bulk_len = 0;
  uint32_t bias = 256;
  template <class A>
  void io(A &a) {
    a(nbits); a(value); a(seed); a(bulk_len); a(bias);
  }
};
struct BufOp {
  int32_t kind = 0;  // 0 scalar, 1 bytes, 2 varint, 3 bit region, 4 bit coder
  int32_t a = 0;     // scalar/varint type index, region size flag, coder kind
  uint64_t v = 0;
  int32_t slack = 0;
  std::string bytes;
  BitOps bits;
  template <class A>
  void io(A &ar) {
    ar(kind); ar(a); ar(v); ar(slack); ar(bytes); ar(bits);
  }
};
struct SeqSpec {
  std::vector<BufOp> ops;
  template <class A>
  void io(A &a) {
    a(ops);
  }
};

template <class T>
static bool enc_scalar(EncoderBuffer *b, uint64_t v) {
  T x;
  memcpy(&x, &v, sizeof(T));
  return b->Encode(x);
}
template <class T>
static std::string dec_scalar(DecoderBuffer *b, uint64_t v) {
  T x, y;
  memcpy(&x, &v, sizeof(T));
  if (!b->Decode(&y)) return "Decode<T> failed";
  return memcmp(&x, &y, sizeof(T)) == 0 ? "" : "scalar read back differently";
}
template <class T>
static std::string varint_rt(uint64_t v) {
  const T x = static_cast<T>(v);
  EncoderBuffer eb;
  if (!EncodeVarint<T>(x, &eb)) return "EncodeVarint failed";
  std::unique_ptr<char[]> blk(new char[eb.size()]);
  memcpy(blk.get(), eb.data(), eb.size());
  DecoderBuffer db;
  db.Init(blk.get(), eb.size());
  T y;
  if (!DecodeVarint<T>(&y, &db)) return "DecodeVarint failed for " + std::to_string(static_cast<long long>(x));
  if (y != x) return "varint " + std::to_string(static_cast<long long>(x)) + " read back as " + std::to_string(static_cast<long long>(y));
  if (db.remaining_size() != 0) return "varint not consumed exactly";
  T z;
  if (DecodeVarint<T>(&z, &db)) return "DecodeVarint succeeds on an exhausted buffer";
  return "";
}
template <class T>
static bool enc_varint(EncoderBuffer *b, uint64_t v) { return EncodeVarint<T>(static_cast<T>(v), b); }
template <class T>
static std::string dec_varint(DecoderBuffer *b, uint64_t v) {
  T y;
  if (!DecodeVarint<T>(&y, b)) return "DecodeVarint failed";
  return y == static_cast<T>(v) ? "" : "varint read back differently";
}

static void expand_bits(const BitOps &b, std::vector<uint8_t> *n, std::vector<uint32_t> *v) {
  *n = b.nbits;
  *v = b.value;
  SplitMix sm(b.seed);
  for (uint32_t i = 0; i < b.bulk_len; ++i) {
    n->push_back(0);
    v->push_back(sm.below(512) < b.bias ? 1 : 0);
  }
}
static uint32_t lowbits(uint32_t v, int n) { return n >= 32 ? v : (v & ((1u << n) - 1)); }

template <class E>
static void coder_encode(const BitOps &ops, EncoderBuffer *eb) {
  std::vector<uint8_t> n;
  std::vector<uint32_t> v;
  expand_bits(ops, &n, &v);
  E enc;
  enc.StartEncoding();
  for (size_t i = 0; i < n.size(); ++i) {
    if (n[i] == 0) enc.EncodeBit(v[i] & 1);
    else enc.EncodeLeastSignificantBits32(n[i], lowbits(v[i], n[i]));
  }
  enc.EndEncoding(eb);
}
template <class D, bool kBoolLsb>
struct LsbReader;
template <class D>
struct LsbReader<D, true> {
  static bool read(D &d, int n, uint32_t *x) { return d.DecodeLeastSignificantBits32(n, x); }
};
template <class D>
struct LsbReader<D, false> {
  static bool read(D &d, int n, uint32_t *x) {
    d.DecodeLeastSignificantBits32(n, x);
    return true;
  }
};
template <class D, bool kBoolLsb>
static std::string coder_decode(const BitOps &ops, DecoderBuffer *db, const char *name) {
  std::vector<uint8_t> n;
  std::vector<uint32_t> v;
  expand_bits(ops, &n, &v);
  D dec;
  if (!dec.StartDecoding(db)) return std::string(name) + ": StartDecoding failed on data the encoder wrote";
  for (size_t i = 0; i < n.size(); ++i) {
    if (n[i] == 0) {
      const bool b = dec.DecodeNextBit();
      if (b != ((v[i] & 1) != 0)) return std::string(name) + ": bit " + std::to_string(i) + " of " + std::to_string(n.size()) + " read back inverted";
    } else {
      uint32_t x = 0;
      if (!LsbReader<D, kBoolLsb>::read(dec, n[i], &x)) return std::string(name) + ": DecodeLeastSignificantBits32 failed";
      if (x != lowbits(v[i], n[i])) return std::string(name) + ": " + std::to_string(n[i]) + "-bit value " + std::to_string(lowbits(v[i], n[i])) + " read back as " + std::to_string(x);
    }
  }
  // reading past the written data: no claim on the values, memory safety only (ASan)
  for (int i = 0; i < 40; ++i) (void)dec.DecodeNextBit();
  uint32_t x;
  (void)LsbReader<D, kBoolLsb>::read(dec, 32, &x);
  dec.EndDecoding();
  return "";
}

static std::string run_seq(const SeqSpec &s, bool *nontriv) {
  EncoderBuffer eb;
  int prev_kind = -1;
  bool bit_between_bytes = false;
  for (size_t i = 0; i < s.ops.size(); ++i) {
    const BufOp &o = s.ops[i];
    bool ok = true;
    switch (o.kind) {
      case 0:
        switch (o.a) {
          case 0: case 1: ok = enc_scalar<uint8_t>(&eb, o.v); break;
          case 2: case 3: ok = enc_scalar<uint16_t>(&eb, o.v); break;
          case 4: case 5: case 8: ok = enc_scalar<uint32_t>(&eb, o.v); break;
          default: ok = enc_scalar<uint64_t>(&eb, o.v);
        }
        break;
      case 1: ok = eb.Encode(o.bytes.data(), o.bytes.size()); break;
      case 2:
        switch (o.a) {
          case 0: ok = enc_varint<uint8_t>(&eb, o.v); break;
          case 1: ok = enc_varint<int8_t>(&eb, o.v); break;
          case 2: ok = enc_varint<uint16_t>(&eb, o.v); break;
          case 3: ok = enc_varint<int16_t>(&eb, o.v); break;
          case 4: ok = enc_varint<uint32_t>(&eb, o.v); break;
          case 5: ok = enc_varint<int32_t>(&eb, o.v); break;
          case 6: ok = enc_varint<uint64_t>(&eb, o.v); break;
          default: ok = enc_varint<int64_t>(&eb, o.v);
        }
        break;
      case 3: {
        int64_t total = 0;
        for (uint8_t n : o.bits.nbits) total += n;
        const int64_t required = std::max<int64_t>(1, total + o.slack);
        if (!eb.StartBitEncoding(required, o.a != 0)) return "StartBitEncoding failed";
        uint8_t probe = 0;
        if (eb.Encode(probe)) return "byte-mode write accepted inside a bit-mode region";
        for (size_t k = 0; k < o.bits.nbits.size(); ++k)
          if (!eb.EncodeLeastSignificantBits32(o.bits.nbits[k], o.bits.value[k])) return "EncodeLeastSignificantBits32 failed";
        eb.EndBitEncoding();
        if (eb.EncodeLeastSignificantBits32(1, 1)) return "bit write accepted outside a bit-mode region";
        if (prev_kind >= 0 && prev_kind != 3 && i + 1 < s.ops.size()) bit_between_bytes = true;
        break;
      }
      default:
        switch (o.a) {
          case 0: coder_encode<RAnsBitEncoder>(o.bits, &eb); break;
          case 1: coder_encode<AdaptiveRAnsBitEncoder>(o.bits, &eb); break;
          case 2: coder_encode<DirectBitEncoder>(o.bits, &eb); break;
          case 3: coder_encode<FoldedBit32Encoder<RAnsBitEncoder>>(o.bits, &eb); break;
          default: coder_encode<SymbolBitEncoder>(o.bits, &eb);
        }
        if (o.bits.nbits.size() + o.bits.bulk_len >= 64) *nontriv = true;
    }
    if (!ok) return "encoder-side primitive reported failure";
    prev_kind = o.kind;
  }
  if (bit_between_bytes) *nontriv = true;
  // exact-size heap block: one byte of over-read is visible to ASan
  std::unique_ptr<char[]> blk(new char[eb.size() ? eb.size() : 1]);
  if (eb.size()) memcpy(blk.get(), eb.data(), eb.size());
  DecoderBuffer db;
  db.Init(blk.get(), eb.size());
  db.set_bitstream_version(kDracoMeshBitstreamVersion);
  for (size_t i = 0; i < s.ops.size(); ++i) {
    const BufOp &o = s.ops[i];
    std::string e;
    switch (o.kind) {
      case 0:
        switch (o.a) {
          case 0: case 1: e = dec_scalar<uint8_t>(&db, o.v); break;
          case 2: case 3: e = dec_scalar<uint16_t>(&db, o.v); break;
          case 4: case 5: case 8: e = dec_scalar<uint32_t>(&db, o.v); break;
          default: e = dec_scalar<uint64_t>(&db, o.v);
        }
        break;
      case 1: {
        std::string back(o.bytes.size(), '\0');
        if (!db.Decode(&back[0], back.size())) e = "Decode(ptr, n) failed";
        else if (back != o.bytes) e = "byte block read back differently";
        break;
      }
      case 2:
        switch (o.a) {
          case 0: e = dec_varint<uint8_t>(&db, o.v); break;
          case 1: e = dec_varint<int8_t>(&db, o.v); break;
          case 2: e = dec_varint<uint16_t>(&db, o.v); break;
          case 3: e = dec_varint<int16_t>(&db, o.v); break;
          case 4: e = dec_varint<uint32_t>(&db, o.v); break;
          case 5: e = dec_varint<int32_t>(&db, o.v); break;
          case 6: e = dec_varint<uint64_t>(&db, o.v); break;
          default: e = dec_varint<int64_t>(&db, o.v);
        }
        break;
      case 3: {
        uint64_t sz = ~0ull;
        if (!db.StartBitDecoding(o.a != 0, &sz)) {
          e = "StartBitDecoding failed";
          break;
        }
        int64_t total = 0;
        for (size_t k = 0; k < o.bits.nbits.size() && e.empty(); ++k) {
          uint32_t x = 0;
          if (!db.DecodeLeastSignificantBits32(o.bits.nbits[k], &x)) e = "DecodeLeastSignificantBits32 failed inside the written region";
          else if (x != lowbits(o.bits.value[k], o.bits.nbits[k])) e = "bit field read back differently";
          total += o.bits.nbits[k];
        }
        if (e.empty() && o.a != 0 && sz != static_cast<uint64_t>((total + 7) / 8)) e = "stored bit-sequence size " + std::to_string(sz) + " != " + std::to_string((total + 7) / 8);
        db.EndBitDecoding();
        break;
      }
      default:
        switch (o.a) {
          case 0: e = coder_decode<RAnsBitDecoder, false>(o.bits, &db, "RAnsBitDecoder"); break;
          case 1: e = coder_decode<AdaptiveRAnsBitDecoder, false>(o.bits, &db, "AdaptiveRAnsBitDecoder"); break;
          case 2: e = coder_decode<DirectBitDecoder, true>(o.bits, &db, "DirectBitDecoder"); break;
          case 3: e = coder_decode<FoldedBit32Decoder<RAnsBitDecoder>, false>(o.bits, &db, "FoldedBit32Decoder"); break;
          default: e = coder_decode<SymbolBitDecoder, false>(o.bits, &db, "SymbolBitDecoder");
        }
    }
    if (!e.empty()) return "op " + std::to_string(i) + " (kind " + std::to_string(o.kind) + "/" + std::to_string(o.a) + "): " + e;
  }
  if (db.remaining_size() != 0) return "mirrored read sequence ends with " + std::to_string(db.remaining_size()) + " bytes left";
  // reads past the end: must fail or yield zero bits, never touch memory outside the block
  uint8_t u8;
  uint64_t u64;
  if (db.Decode(&u8) || db.Decode(&u64)) return "Decode succeeds on an exhausted buffer";
  char tmp[16];
  if (db.Decode(tmp, 16)) return "Decode(ptr, n) succeeds on an exhausted buffer";
  uint32_t v32;
  if (DecodeVarint(&v32, &db)) return "DecodeVarint succeeds on an exhausted buffer";
  uint64_t sz;
  if (db.StartBitDecoding(false, &sz)) {
    uint32_t x = 0xffffffffu;
    if (db.DecodeLeastSignificantBits32(17, &x) && x != 0) return "bits read past the end are not zero";
    db.EndBitDecoding();
  }
  return "";
}

static BitOps gen_bitops(bool coder, int coder_kind) {
  BitOps b;
  const int sc = W({35, 40, 25});
  const int n = sc == 0 ? R(0, 6) : sc == 1 ? R(7, 80) : 0;
  for (int i = 0; i < n; ++i) {
    int nb;
    if (coder) {
      nb = P(55) ? 0 : (P(60) ? R(1, 8) : R(9, 32));
      if (coder_kind == 4 && nb == 0) nb = P(50) ? 0 : R(1, 20);
      // SymbolBitEncoder hands the values to EncodeSymbols; while finding E1 was open its entropy estimate allocated
      // O(largest value) counters, and widths were capped at 20 bits (24 thorough) for this coder.
      if (coder_kind == 4 && open_finding("E1") && nb > (g_thorough ? 24 : 20)) nb = g_thorough ? 24 : 20;
    } else {
      nb = W({10, 45, 30, 15}) == 0 ? 0 : (P(50) ? R(1, 8) : R(9, 32));
    }
    b.nbits.push_back(static_cast<uint8_t>(nb));
    b.value.push_back(P(30) ? (P(50) ? 0u : 0xffffffffu) : U32());
    if (coder && coder_kind == 4 && nb == 32 && (b.value.back() >> 31) && open_finding("F28")) {
      // known finding F28: a 32-bit value with the top bit set cannot be represented by the symbol coder and
      // SymbolBitEncoder::EndEncoding (void) drops the block silently
      b.value.back() &= 0x7fffffffu;
      count("excluded_F28_symbol_bit_coder_width_32_value_ge_2^31");
    }
  }
  if (coder && sc == 2) {
    b.bulk_len = static_cast<uint32_t>(P(80) ? R(64, 3000) : R(3001, 20000));
    static const int biases[] = {0, 1, 4, 32, 128, 256, 384, 480, 508, 511, 512};
    b.bias = static_cast<uint32_t>(biases[R(0, 10)]);
    b.seed = U64();
  }
  return b;
}

static SeqSpec gen_seq() {
  SeqSpec s;
  const int n = W({30, 50, 20}) == 0 ? R(1, 3) : (P(80) ? R(4, 12) : R(13, 30));
  for (int i = 0; i < n; ++i) {
    BufOp o;
    o.kind = W({22, 12, 26, 22, 18});
    static const uint64_t edges[] = {0, 1, 127, 128, 255, 256, 16383, 16384, 32767, 32768, 65535, 65536, (1ull << 21) - 1, 1ull << 21, (1ull << 28) - 1,
                                     1ull << 28, 0x7fffffffull, 0x80000000ull, 0xffffffffull, 1ull << 35, (1ull << 42) - 1, 1ull << 49, (1ull << 56) - 1,
                                     1ull << 56, (1ull << 63) - 1, 1ull << 63, ~0ull};
    auto val = [&]() -> uint64_t {
      const int c = W({40, 20, 40});
      uint64_t v = c == 0 ? edges[R(0, 26)] + static_cast<uint64_t>(R(-1, 1)) : c == 1 ? ~edges[R(0, 26)] : U64() >> R(0, 63);
      return v;
    };
    switch (o.kind) {
      case 0: o.a = R(0, 9); o.v = val(); break;
      case 1: {
        const int len = P(80) ? R(0, 24) : R(25, 300);
        for (int k = 0; k < len; ++k) o.bytes.push_back(static_cast<char>(R(0, 255)));
        break;
      }
      case 2: o.a = R(0, 7); o.v = val(); break;
      case 3:
        o.a = P(50);
        o.bits = gen_bitops(false, 0);
        o.slack = P(50) ? 0 : R(0, 70);
        break;
      default:
        o.a = R(0, 4);
        o.bits = gen_bitops(true, o.a);
    }
    s.ops.push_back(o);
  }
  return s;
}

static std::string describe_seq(const SeqSpec &s) {
  std::string d = "[";
  static const char *kinds[] = {"scalar", "bytes", "varint", "bit_region", "bit_coder"};
  static const char *coders[] = {"rans", "adaptive_rans", "direct", "folded32_rans", "symbol"};
  for (size_t i = 0; i < s.ops.size() && i < 16; ++i) {
    const BufOp &o = s.ops[i];
    J j;
    j.str("op", kinds[o.kind]);
    if (o.kind == 0 || o.kind == 2) j.num("type", o.a).str("value_hex", [&] { char b[32]; snprintf(b, sizeof b, "%llx", (unsigned long long)o.v); return std::string(b); }());
    if (o.kind == 1) j.num("length", static_cast<double>(o.bytes.size()));
    if (o.kind == 3) j.num("stored_size", o.a).num("fields", static_cast<double>(o.bits.nbits.size())).num("slack_bits", o.slack);
    if (o.kind == 4) j.str("coder", coders[o.a]).num("explicit_ops", static_cast<double>(o.bits.nbits.size())).num("bulk_bits", o.bits.bulk_len).num("bias_per_512", o.bits.bias);
    d += (i ? "," : "") + j.done();
  }
  return d + "]";
}

template <class T>
static std::string enum_varint_type(const char *name) {
  typedef typename std::make_unsigned<T>::type U;
  const uint64_t n = 1ull << (8 * sizeof(T));
  std::vector<char> seen_sym(n, 0);
  for (uint64_t i = 0; i < n; ++i) {
    const T x = static_cast<T>(static_cast<U>(i));
    std::string e = varint_rt<T>(static_cast<uint64_t>(static_cast<U>(i)));
    if (!e.empty()) return std::string(name) + ": " + e;
    if (std::is_signed<T>::value) {
      typedef typename std::make_signed<T>::type S;
      const U sym = ConvertSignedIntToSymbol(static_cast<S>(x));
      if (ConvertSymbolToSignedInt(sym) != static_cast<S>(x)) return std::string(name) + ": zig-zag map is not invertible at " + std::to_string(static_cast<long long>(x));
      if (seen_sym[sym]) return std::string(name) + ": zig-zag map is not injective";
      seen_sym[sym] = 1;
    }
  }
  stats().evaluations += n;
  count(std::string("varint_values_enumerated_") + name, n);
  return "";
}

// The rABS coder (RAnsBitEncoder / AdaptiveRAnsBitEncoder / FoldedBit32Encoder) ends a sequence by flushing its final
// state with ans_write_end() and the decoder starts from it with ans_read_init(): every state of the coder's interval
// [L, L * 256) must survive that pair (the 2 / 3 / 4-byte forms are chosen by the state's size).
static std::string enum_ans_final_states() {
  // (ans.h undefines its DRACO_ANS_* macros at the end: L = 4096, IO base = 256)
  const uint32_t DRACO_ANS_L_BASE = 4096u, DRACO_ANS_IO_BASE = 256u;
  for (uint32_t st = DRACO_ANS_L_BASE; st < DRACO_ANS_L_BASE * DRACO_ANS_IO_BASE; ++st) {
    uint8_t buf[16] = {0};
    draco::AnsCoder c;
    draco::ans_write_init(&c, buf);
    c.state = st;
    const int n = draco::ans_write_end(&c);
    draco::AnsDecoder d;
    if (n < 1 || n > 8 || draco::ans_read_init(&d, buf, n) != 0) return "rABS final state " + std::to_string(st) + ": ans_read_init rejects what ans_write_end wrote (" + std::to_string(n) + " bytes)";
    if (d.state != st) return "rABS final state " + std::to_string(st) + " is read back as " + std::to_string(d.state);
    stats().evaluations++;
  }
  count("rabs_final_states_enumerated", DRACO_ANS_L_BASE * (DRACO_ANS_IO_BASE - 1));
  return "";
}

static std::string enum_c17(int shard, int nshards) {
  std::string e;
  if (shard == 4 % nshards) e = enum_ans_final_states();
  if (shard % nshards == 0 % nshards) {
    if (e.empty()) e = enum_varint_type<uint8_t>("uint8");
    if (e.empty()) e = enum_varint_type<int8_t>("int8");
  }
  if (shard == 1 % nshards && e.empty()) e = enum_varint_type<uint16_t>("uint16");
  if (shard == 2 % nshards && e.empty()) e = enum_varint_type<int16_t>("int16");
  // bit fields: every width 0..32 x value pattern, with and without stored size
  if (shard == 3 % nshards && e.empty()) {
    for (int nb = 0; nb <= 32 && e.empty(); ++nb) {
      for (int pat = 0; pat < 6 && e.empty(); ++pat) {
        for (int flag = 0; flag < 2 && e.empty(); ++flag) {
          SeqSpec s;
          BufOp o;
          o.kind = 3;
          o.a = flag;
          static const uint32_t pats[] = {0, 0xffffffffu, 0xaaaaaaaau, 0x55555555u, 1, 0x80000000u};
          for (int k = 0; k < 5; ++k) {
            o.bits.nbits.push_back(static_cast<uint8_t>(nb));
            o.bits.value.push_back(pats[pat]);
          }
          s.ops.push_back(o);
          bool nt = false;
          e = run_seq(s, &nt);
          stats().evaluations++;
          count("bit_field_widths_enumerated");
        }
      }
    }
    // every coder x every width 1..32
    for (int coder = 0; coder < 5 && e.empty(); ++coder) {
      for (int nb = 1; nb <= (coder == 4 && open_finding("E1") ? (g_thorough ? 24 : 20) : 32) && e.empty(); ++nb) {
        SeqSpec s;
        BufOp o;
        o.kind = 4;
        o.a = coder;
        SplitMix sm(coder * 100 + nb);
        for (int k = 0; k < 40; ++k) {
          o.bits.nbits.push_back(static_cast<uint8_t>(nb));
          o.bits.value.push_back(static_cast<uint32_t>(sm.next()));
          if (coder == 4 && nb == 32 && open_finding("F28")) {
            if (o.bits.value.back() >> 31) count("excluded_F28_symbol_bit_coder_width_32_value_ge_2^31");
            o.bits.value.back() &= 0x7fffffffu;
          }
        }
        s.ops.push_back(o);
        bool nt = false;
        e = run_seq(s, &nt);
        if (!e.empty()) set_case("c17", to_tokens(s), describe_seq(s));
        stats().evaluations++;
        count("coder_width_pairs_enumerated");
        nontrivial(hash_tokens(to_tokens(s)));
      }
    }
  }
  if (shard == 0) {
    sample("{\"exhaustive\":\"EncodeVarint/DecodeVarint for every value of uint8, int8, uint16, int16; zig-zag bijection on the same types\"}");
    sample("{\"exhaustive\":\"bit fields of every width 0..32 with and without stored size; every bit coder with every width 1..32\"}");
  }
  stats().have_exhaustive = true;
  stats().exhaustive = true;
  return e;
}

// =================================================================================================
int main(int argc, char **argv) {
  g_thorough = std::string(env("VERIF_TIER", "quick")) == "thorough";
  const std::string mode0 = env("VERIF_MODE", "c16");
  Harness h;
  if (mode0 == "c16") {
    stats().rule =
        "rapidcheck: wrap transform tuples (min, max, orig[], pred[]) with boundary-biased 32-bit ranges (width 0, 1, 2^31-2, "
        "ranges at INT32_MIN/MAX) and predictions anywhere in int32, 1..4 components; canonicalized octahedral pairs for "
        "q = 2..30 biased to corners, centre and diamond edges; non-trivial = a prediction outside [min,max] or a wrapped "
        "correction / an octahedral pair needing inversion or rotation; distinct by spec hash";
  } else if (mode0 == "c16enum") {
    stats().rule =
        "exhaustive: wrap transform for every range inside [-6,6] x every original in range x every prediction in "
        "[-40,40]; canonicalized octahedral transform for every pair of canonical (s,t) at q = 2..5 (thorough: 2..6)";
  } else if (mode0 == "c17") {
    stats().rule =
        "rapidcheck: operation sequences over one EncoderBuffer (scalars of every width, byte blocks, varints of every "
        "type, bit-mode regions with / without stored size and slack, the five bit coders with explicit and bulk biased "
        "bit sequences) read back by the mirrored sequence; non-trivial = a bit-mode region between byte-mode writes or a "
        "coder run of >= 64 bits; distinct by spec hash";
  } else {
    stats().rule =
        "exhaustive: varints and zig-zag maps for all 8- and 16-bit values; bit fields of every width; each coder x width";
  }
  h.run = [&](const std::string &mode) -> std::string {
    if (mode == "c16") {
      if (P(50)) {
        WrapSpec s = gen_wrap();
        set_case("c16wrap", to_tokens(s), J().num("min", s.mn).num("max", s.mx).num("components", s.ncomp).raw("orig", jarr(s.orig, 12)).raw("pred", jarr(s.pred, 12)).done());
        bool nt = false;
        std::string e = guarded([&] { return run_wrap(s, &nt); });
        count("wrap_cases");
        if (nt) {
          nontrivial(hash_tokens(to_tokens(s)));
          sample(current_case().describe, 3);
        }
        return e;
      }
      OctSpec s = gen_oct();
      set_case("c16oct", to_tokens(s), J().num("q", s.q).raw("orig_pred_quadruples", jarr(s.pts, 16)).done());
      bool nt = false;
      std::string e = guarded([&] { return run_oct(s, &nt); });
      count("octahedral_cases");
      count(s.q <= 8 ? "octahedral_q_2_8" : s.q <= 20 ? "octahedral_q_9_20" : "octahedral_q_21_30");
      if (nt) {
        nontrivial(hash_tokens(to_tokens(s)));
        if (stats().samples.size() < 6) stats().samples.push_back(current_case().describe);
      }
      return e;
    }
    SeqSpec s = gen_seq();
    set_case("c17", to_tokens(s), describe_seq(s));
    bool nt = false;
    std::string e = guarded([&] { return run_seq(s, &nt); });
    for (auto &o : s.ops) {
      static const char *kinds[] = {"op_scalar", "op_bytes", "op_varint", "op_bit_region", "op_bit_coder"};
      count(kinds[o.kind]);
      if (o.kind == 4) count("coder_" + std::to_string(o.a));
      if (o.kind == 4 && o.bits.bulk_len) count("coder_bulk_run");
    }
    if (nt) {
      nontrivial(hash_tokens(to_tokens(s)));
      sample(describe_seq(s));
    }
    return e;
  };
  h.replay = [&](const std::string &mode, const std::vector<int64_t> &t) -> std::string {
    bool nt = false;
    if (mode == "c16wrap") {
      WrapSpec s;
      if (!from_tokens(t, &s)) return "bad replay tokens";
      return guarded([&] { return run_wrap(s, &nt); });
    }
    if (mode == "c16oct") {
      OctSpec s;
      if (!from_tokens(t, &s)) return "bad replay tokens";
      return guarded([&] { return run_oct(s, &nt); });
    }
    SeqSpec s;
    if (!from_tokens(t, &s)) return "bad replay tokens";
    return guarded([&] { return run_seq(s, &nt); });
  };
  h.probe = [&](const std::string &id) -> std::string {
    if (id == "F28") {
      SeqSpec s;
      BufOp o;
      o.kind = 4;
      o.a = 4;  // SymbolBitEncoder
      o.bits.nbits = {32, 32, 32};
      o.bits.value = {5u, 0x80000000u, 7u};
      s.ops.push_back(o);
      bool nt = false;
      return guarded([&] { return run_seq(s, &nt); });
    }
    return "";
  };
  h.enumerate = [&](const std::string &mode) {
    const int shard = atoi(env("VERIF_SHARD", "0")), n = std::max(1, atoi(env("VERIF_NSHARDS", "1")));
    return mode == "c16enum" ? enum_c16(shard, n) : enum_c17(shard, n);
  };
  return harness_main(argc, argv, h);
}
