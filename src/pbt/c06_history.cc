// C06 - encoding and decoding are deterministic functions of their inputs.
//   mode c06        histories of calls on long-lived Encoder / ExpertEncoder / Decoder / EncoderBuffer objects compared with
//                   the same calls on fresh objects; trailing bytes; exact consumption
//   mode c06digest  prints one digest line per generated case (encoded bytes + decoded geometry) - the driver runs this in
//                   several processes / address-space layouts / allocator perturbations and compares the lists
#include <chrono>

#include "common/geom.h"

using namespace vf;
using namespace vg;

static bool g_thorough = false;

struct Op {
  int32_t kind = 0;     // 0 configure Encoder, 1 encode with Encoder, 2 configure ExpertEncoder, 3 encode with ExpertEncoder,
                        // 4 decoder: add skip type, 5 decode stream, 6 Encoder::Reset, 7 ExpertEncoder::Reset
  int32_t a = 0;        // pool index (geometry / options source)
  int32_t b = 0;        // buffer id (0/1) or skip type or stream index
  uint8_t clear = 1;    // clear the EncoderBuffer before the encode
  template <class A>
  void io(A &ar) {
    ar(kind); ar(a); ar(b); ar(clear);
  }
};
struct HistSpec {
  std::vector<CaseSpec> pool;
  std::vector<Op> ops;
  uint64_t tail_seed = 0;
  template <class A>
  void io(A &ar) {
    ar(pool); ar(ops); ar(tail_seed);
  }
};

static std::string digest_of(const DecodeResult &r) {
  if (!r.status.ok()) return "error:" + r.status.error_msg_string();
  const draco::Mesh *m = r.geometry_type == 1 ? static_cast<const draco::Mesh *>(r.geom.get()) : nullptr;
  return ordered_digest(*r.geom, m);
}

static DecodeResult decode_with(draco::Decoder &dec, const std::vector<char> &bytes, int64_t *remaining) {
  DecodeResult r;
  std::unique_ptr<char[]> blk(new char[bytes.size() ? bytes.size() : 1]);
  if (!bytes.empty()) memcpy(blk.get(), bytes.data(), bytes.size());
  draco::DecoderBuffer db;
  db.Init(blk.get(), bytes.size());
  auto type = draco::Decoder::GetEncodedGeometryType(&db);
  if (!type.ok()) {
    r.status = type.status();
    return r;
  }
  r.geometry_type = type.value() == draco::TRIANGULAR_MESH ? 1 : 0;
  if (r.geometry_type == 1) {
    auto m = dec.DecodeMeshFromBuffer(&db);
    r.status = m.status();
    if (m.ok()) r.geom = std::move(m).value();
  } else {
    auto m = dec.DecodePointCloudFromBuffer(&db);
    r.status = m.status();
    if (m.ok()) r.geom = std::move(m).value();
  }
  if (remaining) *remaining = db.remaining_size();
  return r;
}

static std::string run_history(const HistSpec &h, bool *nontriv) {
  const size_t np = h.pool.size();
  std::vector<std::unique_ptr<draco::PointCloud>> geoms;
  for (auto &cs : h.pool) geoms.push_back(build_geometry(cs.g));
  draco::Encoder enc;                                  // long-lived type-keyed encoder
  std::vector<int> enc_cfg;                            // pool indices applied since the last Reset
  std::vector<std::unique_ptr<draco::ExpertEncoder>> xenc(np);
  std::vector<std::vector<int>> xcfg(np);              // per expert encoder: pool indices whose global options were applied
  std::vector<char> xown(np, 0);                       // own attribute options applied
  draco::Decoder dec;
  std::set<int> skip;
  draco::EncoderBuffer bufs[2];
  std::vector<std::vector<char>> streams;
  std::vector<char> stream_matches_f19;  // open finding F19 (decoder refuses very small compressed-connectivity streams)
  SplitMix tg(h.tail_seed);
  int last_kind = -1;
  bool after_failure = false;
  auto mesh_of = [&](int k) { return h.pool[k].g.is_mesh ? static_cast<const draco::Mesh *>(geoms[k].get()) : nullptr; };
  for (size_t oi = 0; oi < h.ops.size(); ++oi) {
    const Op &op = h.ops[oi];
    const int k = static_cast<int>(op.a % np);
    EncodeResult dummy;
    const std::string at = "op " + std::to_string(oi) + " (kind " + std::to_string(op.kind) + "): ";
    switch (op.kind) {
      case 0:
        configure_encoder(enc, h.pool[k].g, h.pool[k].o, &dummy);
        enc_cfg.push_back(k);
        break;
      case 6:
        enc.Reset();
        enc_cfg.clear();
        break;
      case 1: {
        draco::EncoderBuffer &b = bufs[op.b & 1];
        if (op.clear) b.Clear();
        const size_t before = b.size();
        draco::Status st = mesh_of(k) ? enc.EncodeMeshToBuffer(*mesh_of(k), &b) : enc.EncodePointCloudToBuffer(*geoms[k], &b);
        // reference: fresh objects, same option history
        draco::Encoder fresh;
        for (int j : enc_cfg) configure_encoder(fresh, h.pool[j].g, h.pool[j].o, &dummy);
        draco::EncoderBuffer fb;
        draco::Status fst = mesh_of(k) ? fresh.EncodeMeshToBuffer(*mesh_of(k), &fb) : fresh.EncodePointCloudToBuffer(*geoms[k], &fb);
        if (st.ok() != fst.ok()) return at + "reused Encoder and fresh Encoder disagree on success";
        if (!st.ok()) {
          count("encode_error");
          after_failure = true;
          // a failed encode may leave a partial stream in the buffer: restart it
          b.Clear();
          break;
        }
        if (b.size() - before != fb.size() || memcmp(b.data() + before, fb.data(), fb.size()) != 0) {
          return at + "Encoder reused after " + std::to_string(oi) + " operations produces different bytes than a fresh Encoder with the same options (" +
                 std::to_string(b.size() - before) + " vs " + std::to_string(fb.size()) + " bytes)";
        }
        if (fresh.num_encoded_points() != enc.num_encoded_points() || fresh.num_encoded_faces() != enc.num_encoded_faces()) return at + "reported counts depend on history";
        streams.emplace_back(fb.data(), fb.data() + fb.size());
        {
          EncodeResult er;
          er.status = draco::OkStatus();
          finish_result(fb, &er);
          stream_matches_f19.push_back(open_finding("F19") && f19_signature(er, h.pool[k]));
        }
        count("encoder_encodes");
        if ((last_kind != 1 && last_kind != -1) || after_failure || !op.clear) *nontriv = true;
        break;
      }
      case 2:
      case 3:
      case 7: {
        if (!xenc[k]) xenc[k].reset(mesh_of(k) ? new draco::ExpertEncoder(*mesh_of(k)) : new draco::ExpertEncoder(*geoms[k]));
        if (op.kind == 7) {
          xenc[k]->Reset();
          xcfg[k].clear();
          xown[k] = 0;
          break;
        }
        if (op.kind == 2) {
          const int j = static_cast<int>(op.b % np);
          if (j == k) {
            configure_expert(*xenc[k], h.pool[k].g, h.pool[k].o, &dummy);
            xown[k] = 1;
            xcfg[k].push_back(-1);
          } else {
            apply_global_options(*xenc[k], h.pool[j].o);
            xcfg[k].push_back(j);
          }
          break;
        }
        draco::EncoderBuffer &b = bufs[op.b & 1];
        if (op.clear) b.Clear();
        const size_t before = b.size();
        draco::Status st = xenc[k]->EncodeToBuffer(&b);
        std::unique_ptr<draco::ExpertEncoder> fresh(mesh_of(k) ? new draco::ExpertEncoder(*mesh_of(k)) : new draco::ExpertEncoder(*geoms[k]));
        for (int j : xcfg[k]) {
          if (j < 0) configure_expert(*fresh, h.pool[k].g, h.pool[k].o, &dummy);
          else apply_global_options(*fresh, h.pool[j].o);
        }
        draco::EncoderBuffer fb;
        draco::Status fst = fresh->EncodeToBuffer(&fb);
        if (st.ok() != fst.ok()) return at + "reused ExpertEncoder and fresh ExpertEncoder disagree on success";
        if (!st.ok()) {
          count("encode_error");
          after_failure = true;
          b.Clear();
          break;
        }
        if (b.size() - before != fb.size() || memcmp(b.data() + before, fb.data(), fb.size()) != 0) {
          return at + "ExpertEncoder reused after earlier encodes produces different bytes than a fresh ExpertEncoder with the same options (" +
                 std::to_string(b.size() - before) + " vs " + std::to_string(fb.size()) + " bytes)";
        }
        streams.emplace_back(fb.data(), fb.data() + fb.size());
        {
          EncodeResult er;
          er.status = draco::OkStatus();
          finish_result(fb, &er);
          stream_matches_f19.push_back(open_finding("F19") && f19_signature(er, h.pool[k]));
        }
        count("expert_encodes");
        if ((last_kind != 3 && last_kind != -1) || after_failure || !op.clear) *nontriv = true;
        break;
      }
      case 4:
        dec.SetSkipAttributeTransform(static_cast<GeometryAttribute::Type>(op.b % 5));
        skip.insert(op.b % 5);
        break;
      default: {
        if (streams.empty()) break;
        const std::vector<char> &s = streams[op.b % streams.size()];
        int64_t rem = -1;
        DecodeResult r = decode_with(dec, s, &rem);
        draco::Decoder fresh;
        for (int t : skip) fresh.SetSkipAttributeTransform(static_cast<GeometryAttribute::Type>(t));
        int64_t frem = -1;
        DecodeResult fr = decode_with(fresh, s, &frem);
        if (digest_of(r) != digest_of(fr)) return at + "reused Decoder returns a different geometry than a fresh Decoder with the same options";
        if (r.status.ok() && rem != 0) return at + "a successful decode leaves " + std::to_string(rem) + " bytes of the stream unconsumed";
        // trailing bytes: decoding (success and result) must not depend on what follows the stream, and a successful
        // decode must consume exactly the stream
        {
          std::vector<char> t = s;
          const int n = 1 + static_cast<int>(tg.below(tg.below(8) == 0 ? 70000 : 64));
          for (int i = 0; i < n; ++i) t.push_back(static_cast<char>(tg.next()));
          int64_t trem = -1;
          DecodeResult tr = decode_with(fresh, t, &trem);
          if (tr.status.ok() != fr.status.ok() && stream_matches_f19[op.b % streams.size()] && !fr.status.ok()) {
            // known finding F19: the decoder's `num_faces > remaining_size / 3` guard rejects this stream on its own and
            // lets it pass when enough bytes follow it - same root cause, reported by C01's probe
            count("excluded_F19_stream_decodes_only_with_trailing_bytes");
          } else if (tr.status.ok() != fr.status.ok()) {
            return at + "the stream alone " + (fr.status.ok() ? "decodes" : "fails to decode") + " but with " + std::to_string(n) + " trailing bytes it " +
                   (tr.status.ok() ? "decodes" : "fails to decode");
          }
          const bool f19_pair = tr.status.ok() != fr.status.ok();  // (only the exempted F19 case gets here with a mismatch)
          if (!f19_pair && digest_of(tr) != digest_of(fr)) return at + "decoding depends on bytes that follow the stream";
          if (tr.status.ok() && trem != n) return at + "with " + std::to_string(n) + " trailing bytes the decoder leaves " + std::to_string(trem) + " bytes unconsumed";
          count("trailing_byte_decodes");
        }
        if (!r.status.ok() && !stream_matches_f19[op.b % streams.size()]) return at + "a stream the encoder produced does not decode: " + r.status.error_msg_string();
        count("decoder_decodes");
        if (last_kind != 5 && last_kind != -1) *nontriv = true;
      }
    }
    last_kind = op.kind;
  }
  return "";
}

static HistSpec gen_history(std::vector<std::string> *classes) {
  HistSpec h;
  GenCfg cfg;
  cfg.thorough = g_thorough;
  cfg.allow_large = false;
  cfg.allow_wide = false;  // option sets are applied across the geometries of the pool
  cfg.max_extra_atts = 2;
  const int np = R(2, 4);
  for (int i = 0; i < np; ++i) {
    CaseSpec cs = gen_case(cfg, classes);
    // option sets are applied across geometries in a history: an explicit quantization box only fits the geometry it
    // was generated for (values outside the box are outside the encoder's input domain), so boxes are dropped here
    for (auto &o : cs.o.per_att) o.explicit_q = 0;
    for (auto &o : cs.o.per_type) o.explicit_q = 0;
    h.pool.push_back(cs);
  }
  const int nops = R(4, g_thorough ? 30 : 18);
  for (int i = 0; i < nops; ++i) {
    Op op;
    op.kind = W({18, 22, 14, 18, 6, 14, 4, 4});
    op.a = R(0, np - 1);
    op.b = R(0, 7);
    op.clear = P(75);
    h.ops.push_back(op);
  }
  h.tail_seed = U64();
  return h;
}

static std::string describe(const HistSpec &h) {
  static const char *names[] = {"Encoder.configure", "Encoder.encode", "ExpertEncoder.configure", "ExpertEncoder.encode", "Decoder.SetSkipAttributeTransform",
                                "Decoder.decode", "Encoder.Reset", "ExpertEncoder.Reset"};
  std::string ops = "[";
  for (size_t i = 0; i < h.ops.size(); ++i)
    ops += (i ? "," : "") + J().str("op", names[h.ops[i].kind]).num("geometry", h.ops[i].a % static_cast<int>(h.pool.size())).num("arg", h.ops[i].b).num("clear_buffer", h.ops[i].clear).done();
  std::string pool = "[";
  for (size_t i = 0; i < h.pool.size(); ++i) pool += (i ? "," : "") + (h.pool[i].g.npoints <= 12 ? describe_case(h.pool[i]) : J().num("points", h.pool[i].g.npoints).num("faces", static_cast<double>(h.pool[i].g.nfaces())).done());
  return "{\"operations\":" + ops + "],\"pool\":" + pool + "]}";
}

int main(int argc, char **argv) {
  g_thorough = std::string(env("VERIF_TIER", "quick")) == "thorough";
  const std::string mode0 = env("VERIF_MODE", "c06");
  stats().rule =
      "rapidcheck-generated histories: a pool of 2..4 geometries with option sets and 4..18 (thorough 30) operations on one "
      "long-lived Encoder, one ExpertEncoder per geometry, one Decoder and two EncoderBuffers (configure, encode with / without "
      "clearing the buffer, Reset, sticky skip options, decode of earlier streams, failed encodes in between); every result is "
      "compared byte-for-byte / by ordered digest with the same call on fresh objects, every decode also with 1..64 trailing bytes "
      "and for exact consumption; non-trivial = an object is reused after an operation of a different kind, after a failure, or "
      "a buffer is appended to; distinct by history hash";
  Harness hh;
  hh.run = [&](const std::string &mode) -> std::string {
    std::vector<std::string> classes;
    if (mode == "c06digest") {
      GenCfg cfg;
      cfg.allow_large = false;
      CaseSpec cs = gen_case(cfg, &classes);
      std::unique_ptr<draco::PointCloud> pc = build_geometry(cs.g);
      EncodeResult er = encode_case(cs, *pc);
      Digest d;
      d.bytes(er.bytes.data(), er.bytes.size());
      std::string dd = "encode-error";
      if (er.status.ok()) dd = digest_of(decode_bytes(er.bytes));
      printf("DIGEST %016llx %s %s\n", (unsigned long long)hash_tokens(to_tokens(cs)), d.hex().c_str(), dd.c_str());
      return "";
    }
    HistSpec h = gen_history(&classes);
    set_case(mode, to_tokens(h), describe(h));
    bool nt = false;
    std::string e = guarded([&] { return run_history(h, &nt); });
    if (nt) {
      nontrivial(hash_tokens(to_tokens(h)));
      sample(describe(h), 2);
    }
    return e;
  };
  hh.replay = [&](const std::string &, const std::vector<int64_t> &t) {
    HistSpec h;
    if (!from_tokens(t, &h)) return std::string("bad replay tokens");
    bool nt = false;
    return guarded([&] { return run_history(h, &nt); });
  };
  return harness_main(argc, argv, hh);
}
