// C05 - existing bitstreams keep decoding to the same geometry, in the same order.
//   c05_corpus --freeze     compute the ordered digest of every stream in VERIF_CORPUS_DIRS, print golden lines
//   c05_corpus              check every stream against VERIF_GOLDEN (sharded), plus the version gate
#include <dirent.h>

#include <algorithm>
#include <fstream>

#include "common/geom.h"
#include "draco/io/obj_decoder.h"

using namespace vf;
using namespace vg;

struct Golden {
  std::string digest;
  uint32_t points = 0, faces = 0;
  int atts = 0;
};

static std::vector<std::string> list_streams() {
  std::vector<std::string> files;
  std::stringstream ss(env("VERIF_CORPUS_DIRS", "/verif/corpus/legacy:/verif/corpus/frozen"));
  std::string d;
  while (std::getline(ss, d, ':')) {
    DIR *dir = opendir(d.c_str());
    if (!dir) continue;
    while (dirent *e = readdir(dir)) {
      std::string n = e->d_name;
      if (n.size() > 4 && n.substr(n.size() - 4) == ".drc") files.push_back(d + "/" + n);
    }
    closedir(dir);
  }
  std::sort(files.begin(), files.end());
  return files;
}
static std::string base_name(const std::string &p) { return p.substr(p.find_last_of('/') + 1); }
static std::vector<char> read_all(const std::string &p) {
  std::ifstream in(p, std::ios::binary);
  return std::vector<char>((std::istreambuf_iterator<char>(in)), std::istreambuf_iterator<char>());
}

static std::string check_stream(const std::string &path, const std::map<std::string, Golden> &golden) {
  const std::vector<char> bytes = read_all(path);
  const std::string name = base_name(path);
  auto it = golden.find(name);
  if (it == golden.end()) return "CORPUS-ERROR no golden entry for " + name;
  if (bytes.size() < 11) return "CORPUS-ERROR short stream " + name;
  const int major = static_cast<uint8_t>(bytes[5]), minor = static_cast<uint8_t>(bytes[6]), type = static_cast<uint8_t>(bytes[7]), method = static_cast<uint8_t>(bytes[8]);
  count("version_" + std::to_string(major) + "." + std::to_string(minor));
  count(std::string(type == 1 ? (method ? "mesh_edgebreaker" : "mesh_sequential") : (method ? "pc_kdtree" : "pc_sequential")));
  for (int entry = 0; entry < 2; ++entry) {
    DecodeResult r = decode_bytes(bytes, {}, entry);
    if (!r.status.ok()) return name + ": no longer decodes (" + r.status.error_msg_string() + ")";
    const draco::Mesh *m = r.geometry_type == 1 ? static_cast<const draco::Mesh *>(r.geom.get()) : nullptr;
    const std::string dg = ordered_digest(*r.geom, m);
    if (r.geom->num_points() != it->second.points) return name + ": decodes to " + std::to_string(r.geom->num_points()) + " points, " + std::to_string(it->second.points) + " when frozen";
    if (m && m->num_faces() != it->second.faces) return name + ": decodes to " + std::to_string(m->num_faces()) + " faces, " + std::to_string(it->second.faces) + " when frozen";
    if (dg != it->second.digest) return name + ": decoded geometry (values or element order) differs from the frozen digest";
  }
  stats().evaluations++;
  nontrivial(hash_tokens({static_cast<int64_t>(std::hash<std::string>()(name))}));
  if (bytes.size() < 200) sample(J().str("stream", name).num("bytes", static_cast<double>(bytes.size())).str("version", std::to_string(major) + "." + std::to_string(minor)).str("digest", it->second.digest).done());
  // version gate: every newer (or zero) version written into the header must be refused as UNKNOWN_VERSION
  const int max_minor = type == 0 ? 3 : 2;
  std::vector<std::pair<int, int>> versions = {{0, 0}, {0, 3}, {2, max_minor + 1}, {2, max_minor + 2}, {2, 255}, {3, 0}, {3, 2}, {4, 1}, {255, 255}, {128, 0}};
  for (auto &v : versions) {
    std::vector<char> m = bytes;
    m[5] = static_cast<char>(v.first);
    m[6] = static_cast<char>(v.second);
    for (int entry = 0; entry < 2; ++entry) {
      DecodeResult r = decode_bytes(m, {}, entry);
      if (r.status.ok()) return name + ": header version " + std::to_string(v.first) + "." + std::to_string(v.second) + " is decoded instead of being refused";
      if (r.status.code() != draco::Status::UNKNOWN_VERSION) {
        return name + ": header version " + std::to_string(v.first) + "." + std::to_string(v.second) + " is refused with '" + r.status.error_msg_string() + "' instead of a version error";
      }
      count("version_gate_checks");
    }
  }
  return "";
}

// independent check for the legacy test_nm.obj streams: the decoded positions, read as integers through the
// skip-transform decode, must equal the positions of testdata/test_nm.obj quantized with the declared parameters
static std::string check_against_obj(const std::string &path, const std::string &obj_path) {
  const std::vector<char> bytes = read_all(path);
  const std::vector<char> obj = read_all(obj_path);
  if (obj.empty()) return "";
  draco::DecoderBuffer ob;
  ob.Init(obj.data(), obj.size());
  draco::Mesh src;
  draco::ObjDecoder od;
  if (!od.DecodeFromBuffer(&ob, &src).ok()) return "";
  DecodeResult S = decode_bytes(bytes, {0});
  if (!S.status.ok() || S.geometry_type != 1) return "";
  const draco::Mesh &dm = static_cast<const draco::Mesh &>(*S.geom);
  const draco::PointAttribute *dp = dm.GetNamedAttribute(GeometryAttribute::POSITION);
  const draco::PointAttribute *sp = src.GetNamedAttribute(GeometryAttribute::POSITION);
  if (!dp || !sp || !dp->GetAttributeTransformData()) return "";
  draco::AttributeQuantizationTransform t;
  if (!t.InitFromAttribute(*dp)) return "";
  RefQuant rq;
  rq.bits = t.quantization_bits();
  rq.mins = t.min_values();
  rq.range = t.range();
  typedef std::array<std::array<int32_t, 3>, 3> T;
  auto canon = [](T x) {
    T b = x;
    for (int r = 1; r < 3; ++r) {
      T c = {x[r], x[(r + 1) % 3], x[(r + 2) % 3]};
      if (c < b) b = c;
    }
    return b;
  };
  std::vector<T> want, got;
  for (uint32_t f = 0; f < src.num_faces(); ++f) {
    T tri;
    bool deg = false;
    for (int k = 0; k < 3; ++k) {
      float v[3];
      sp->GetMappedValue(src.face(FaceIndex(f))[k], v);
      for (int c = 0; c < 3; ++c) tri[k][c] = rq.q(v[c], c);
    }
    for (int k = 0; k < 3; ++k) deg |= sp->mapped_index(src.face(FaceIndex(f))[k]) == sp->mapped_index(src.face(FaceIndex(f))[(k + 1) % 3]);
    if (!deg) want.push_back(canon(tri));
  }
  for (uint32_t f = 0; f < dm.num_faces(); ++f) {
    T tri;
    for (int k = 0; k < 3; ++k) {
      int32_t v[3];
      dp->GetMappedValue(dm.face(FaceIndex(f))[k], v);
      for (int c = 0; c < 3; ++c) tri[k][c] = v[c];
    }
    got.push_back(canon(tri));
  }
  std::sort(want.begin(), want.end());
  std::sort(got.begin(), got.end());
  if (want != got) return base_name(path) + ": the decoded triangles are not the quantization of testdata/test_nm.obj with the declared parameters";
  count("legacy_streams_checked_against_test_nm_obj");
  return "";
}

// C10 on stored streams (mode c10): every stream of the corpus - in particular the legacy ones, whose decoders read the
// transform parameters in version-gated branches - is decoded normally and with skip sets; a skipped attribute that
// carries a transform must come back as integers plus a transform description which, applied through the library's own
// transform class, reproduces the ordinary decode bit for bit; everything else must be unchanged. No spec is needed: an
// attribute "carries a transform" when the ordinary decode is float and the skipped decode is integral.
#include "draco/attributes/attribute_octahedron_transform.h"
#include "draco/attributes/attribute_quantization_transform.h"
static std::string check_stream_c10(const std::string &path) {
  const std::vector<char> bytes = read_all(path);
  DecodeResult N = decode_bytes(bytes);
  if (!N.status.ok()) return base_name(path) + ": ordinary decode failed: " + N.status.error_msg_string();
  uint32_t present = 0;
  for (int i = 0; i < N.geom->num_attributes(); ++i)
    if (N.geom->attribute(i)->attribute_type() >= 0 && N.geom->attribute(i)->attribute_type() < 5) present |= 1u << N.geom->attribute(i)->attribute_type();
  std::set<uint32_t> masks = {31u};
  for (int t = 0; t < 5; ++t)
    if (present & (1u << t)) masks.insert(1u << t);
  static const bool thorough = std::string(env("VERIF_TIER", "quick")) == "thorough";
  if (thorough) for (uint32_t m = 1; m < 32; ++m) masks.insert(m);
  bool any_transform = false;
  for (uint32_t m : masks) {
    std::vector<int> types;
    for (int t = 0; t < 5; ++t) if (m & (1u << t)) types.push_back(t);
    DecodeResult S = decode_bytes(bytes, types, static_cast<int>(m & 1));
    const std::string pre = base_name(path) + " skip set " + std::to_string(m) + ": ";
    if (!S.status.ok()) return pre + "decode failed: " + S.status.error_msg_string();
    if (N.geom->num_points() != S.geom->num_points() || N.geom->num_attributes() != S.geom->num_attributes()) return pre + "point or attribute count differs";
    if (N.geometry_type == 1) {
      const auto &mn = static_cast<const draco::Mesh &>(*N.geom);
      const auto &ms = static_cast<const draco::Mesh &>(*S.geom);
      if (mn.num_faces() != ms.num_faces()) return pre + "face count differs";
      for (uint32_t f = 0; f < mn.num_faces(); ++f)
        for (int k = 0; k < 3; ++k)
          if (mn.face(FaceIndex(f))[k] != ms.face(FaceIndex(f))[k]) return pre + "connectivity differs";
    }
    for (int i = 0; i < N.geom->num_attributes(); ++i) {
      const draco::PointAttribute *n = N.geom->attribute(i), *sa = S.geom->attribute(i);
      const std::string who = pre + "attribute #" + std::to_string(i) + ": ";
      if (n->attribute_type() != sa->attribute_type()) return who + "attribute type differs";
      if (n->unique_id() != sa->unique_id()) return who + "unique id differs";
      const bool in_k = n->attribute_type() >= 0 && n->attribute_type() < 5 && ((m >> n->attribute_type()) & 1);
      const bool transformed = n->data_type() == draco::DT_FLOAT32 && draco::IsDataTypeIntegral(sa->data_type());
      uint8_t bn[256], bs[256];
      if (!transformed) {
        if (n->data_type() != sa->data_type()) {
          // integer attribute of a skipped type: the int32 working copy is handed out (same integers, widened)
          if (!(in_k && draco::IsDataTypeIntegral(n->data_type()) && sa->data_type() == draco::DT_INT32 && sa->num_components() == n->num_components()))
            return who + "data type changed";
          for (uint32_t p = 0; p < N.geom->num_points(); ++p) {
            int64_t vn[16], vs[16];
            if (n->num_components() > 16 || !n->ConvertValue<int64_t>(n->mapped_index(PointIndex(p)), n->num_components(), vn) ||
                !sa->ConvertValue<int64_t>(sa->mapped_index(PointIndex(p)), n->num_components(), vs))
              return who + "ConvertValue failed";
            for (int c = 0; c < n->num_components(); ++c)
              if (static_cast<uint32_t>(vn[c]) != static_cast<uint32_t>(vs[c])) return who + "integer value of point " + std::to_string(p) + " changed by the skip option";
          }
          continue;
        }
        if (n->num_components() != sa->num_components() || n->byte_stride() != sa->byte_stride() || n->byte_stride() > 256) return who + "descriptor changed";
        for (uint32_t p = 0; p < N.geom->num_points(); ++p) {
          n->GetMappedValue(PointIndex(p), bn);
          sa->GetMappedValue(PointIndex(p), bs);
          if (memcmp(bn, bs, n->byte_stride()) != 0) return who + "value of point " + std::to_string(p) + " changed by the skip option";
        }
        continue;
      }
      if (!in_k) return who + "attribute came back as integers although its type is not in the skip set";
      any_transform = true;
      const draco::AttributeTransformData *td = sa->GetAttributeTransformData();
      if (!td) return who + "skipped attribute has no transform description";
      GeometryAttribute ga;
      ga.Init(n->attribute_type(), nullptr, n->num_components(), draco::DT_FLOAT32, false, 4 * n->num_components(), 0);
      draco::PointAttribute target(ga);
      target.Reset(sa->size());
      if (td->transform_type() == draco::ATTRIBUTE_OCTAHEDRON_TRANSFORM) {
        draco::AttributeOctahedronTransform tr;
        if (!tr.InitFromAttribute(*sa) || !tr.InverseTransformAttribute(*sa, &target)) return who + "described octahedron transform cannot be applied";
        count("c10_corpus_octahedral");
      } else if (td->transform_type() == draco::ATTRIBUTE_QUANTIZATION_TRANSFORM) {
        draco::AttributeQuantizationTransform tr;
        if (!tr.InitFromAttribute(*sa) || !tr.InverseTransformAttribute(*sa, &target)) return who + "described quantization transform cannot be applied";
        count("c10_corpus_quantized");
      } else {
        return who + "unknown transform description";
      }
      for (uint32_t p = 0; p < N.geom->num_points(); ++p) {
        n->GetMappedValue(PointIndex(p), bn);
        target.GetValue(sa->mapped_index(PointIndex(p)), bs);
        if (memcmp(bn, bs, 4 * n->num_components()) != 0)
          return who + "integers + described transform do not reproduce the ordinary decode at point " + std::to_string(p);
      }
    }
    count("c10_corpus_skip_decodes");
  }
  count(any_transform ? "c10_corpus_streams_with_transform" : "c10_corpus_streams_without_transform");
  {
    const uint8_t maj = bytes.size() > 6 ? static_cast<uint8_t>(bytes[5]) : 0, mnr = bytes.size() > 6 ? static_cast<uint8_t>(bytes[6]) : 0;
    if (any_transform) count("c10_corpus_version_" + std::to_string(maj) + "." + std::to_string(mnr));
  }
  return "";
}

int main(int argc, char **argv) {
  bool freeze = false;
  for (int i = 1; i < argc; ++i) freeze |= std::string(argv[i]) == "--freeze";
  const std::vector<std::string> files = list_streams();
  if (freeze) {
    for (auto &f : files) {
      DecodeResult r = decode_bytes(read_all(f));
      if (!r.status.ok()) {
        fprintf(stderr, "cannot freeze %s: %s\n", f.c_str(), r.status.error_msg());
        return 1;
      }
      const draco::Mesh *m = r.geometry_type == 1 ? static_cast<const draco::Mesh *>(r.geom.get()) : nullptr;
      printf("%s %s %u %u %d\n", base_name(f).c_str(), ordered_digest(*r.geom, m).c_str(), r.geom->num_points(), m ? m->num_faces() : 0, r.geom->num_attributes());
    }
    return 0;
  }
  std::string replay_path;
  for (int i = 1; i + 1 < argc; ++i)
    if (std::string(argv[i]) == "--replay") replay_path = argv[i + 1];
  std::map<std::string, Golden> golden;
  {
    std::ifstream in(env("VERIF_GOLDEN", "/verif/corpus/golden.txt"));
    std::string name;
    Golden g;
    while (in >> name >> g.digest >> g.points >> g.faces >> g.atts) golden[name] = g;
  }
  std::string mode_arg = env("VERIF_MODE", "c05");
  for (int i = 1; i + 1 < argc; ++i)
    if (std::string(argv[i]) == "--mode") mode_arg = argv[i + 1];
  const bool c10 = mode_arg == "c10";
  if (!replay_path.empty() && c10) {
    std::string e = guarded([&] { return check_stream_c10(replay_path); });
    printf(e.empty() ? "REPLAY-PASS\n" : "REPLAY-FAIL %s\n", e.c_str());
    return e.empty() ? 0 : 1;
  }
  if (!replay_path.empty()) {
    std::string e = guarded([&] { return check_stream(replay_path, golden); });
    if (e.empty() && base_name(replay_path).rfind("test_nm.obj.", 0) == 0)
      e = guarded([&] { return check_against_obj(replay_path, std::string(env("VERIF_REPO", "/repo")) + "/testdata/test_nm.obj"); });
    printf(e.empty() ? "REPLAY-PASS\n" : "REPLAY-FAIL %s\n", e.c_str());
    return e.empty() ? 0 : 1;
  }
  stats().rule =
      "every stream of the frozen corpus (25 legacy testdata streams of bitstream versions 1.1..2.3 + streams frozen from the "
      "encoder of this tree's first verified revision, one or two per encoder code-path class) is decoded through "
      "DecodeMesh/PointCloudFromBuffer and DecodeBufferToGeometry and its ordered digest (attribute descriptors, points, "
      "faces, values, metadata, in decoded order) is compared with corpus/golden.txt; each header is rewritten to 10 "
      "unsupported versions that must be refused with UNKNOWN_VERSION; every stream is distinct and counts as non-trivial";
  if (c10)
    stats().rule =
        "C10 on stored streams: every stream of the corpus (25 legacy + frozen) decoded normally and with the full skip set "
        "and each single present type (thorough: all subsets); skipped float attributes must come back as integers with a "
        "transform description that reproduces the ordinary decode bit for bit through the library's transform class";
  const int shard = atoi(env("VERIF_SHARD", "0")), nshards = std::max(1, atoi(env("VERIF_NSHARDS", "1")));
  std::string err;
  for (size_t i = 0; i < files.size() && err.empty(); ++i) {
    if (static_cast<int>(i % nshards) != shard) continue;
    set_case(c10 ? "c10" : "c05", {static_cast<int64_t>(i)}, J().str("stream", files[i]).done());
    if (c10) {
      err = guarded([&] { return check_stream_c10(files[i]); });
      if (err.empty()) nontrivial(static_cast<uint64_t>(i) + 1);
    } else {
      err = guarded([&] { return check_stream(files[i], golden); });
    }
    if (!c10 && err.empty() && base_name(files[i]).rfind("test_nm.obj.", 0) == 0) {
      err = guarded([&] { return check_against_obj(files[i], std::string(env("VERIF_REPO", "/repo")) + "/testdata/test_nm.obj"); });
    }
    if (!err.empty()) {
      // the replay file is the stream itself
      stats().failures.push_back(files[i]);
      stats().fail_message = err;
      printf("%s-FAIL %s\n", c10 ? "C10" : "C05", err.c_str());
    }
  }
  alarm(0);
  current_case().tokens.clear();
  write_stats();
  return err.empty() ? 0 : 1;
}
