// C15 - writing a geometry to OBJ / PLY / STL and reading it back preserves it; the command-line tools compose the
// steps without further loss (mode c15cli).
#include <sys/stat.h>
#include <unistd.h>

#include <cmath>
#include <fstream>

#include "common/geom.h"
#include "draco/io/obj_decoder.h"
#include "draco/io/obj_encoder.h"
#include "draco/io/ply_decoder.h"
#include "draco/io/ply_encoder.h"
#include "draco/io/stl_decoder.h"
#include "draco/io/stl_encoder.h"

using namespace vf;
using namespace vg;

static bool g_thorough = false;

struct C15Spec {
  GeomSpec g;
  int32_t cl = 7;        // compression level for the command line pipeline
  template <class A>
  void io(A &a) {
    a(g); a(cl);
  }
};

static int att_of_type(const GeomSpec &g, int type) {
  for (size_t i = 0; i < g.atts.size(); ++i)
    if (g.atts[i].type == type) return static_cast<int>(i);
  return -1;
}

static std::string f6(float x) {
  char b[64];
  snprintf(b, sizeof b, "%F", x);
  return b;
}
static bool close6(float a, float b) {
  const double tol = 0.5e-6 + std::ldexp(1.0, -23) * std::fabs(static_cast<double>(a));
  return std::fabs(static_cast<double>(a) - static_cast<double>(b)) <= tol * 1.0000001;
}

// ---- PLY -----------------------------------------------------------------------------------------
static std::string check_ply(const C15Spec &s, const draco::PointCloud &pc) {
  const GeomSpec &g = s.g;
  draco::EncoderBuffer eb;
  draco::PlyEncoder enc;
  const bool ok = g.is_mesh ? enc.EncodeToBuffer(static_cast<const draco::Mesh &>(pc), &eb) : enc.EncodeToBuffer(pc, &eb);
  if (!ok) {
    count("ply_encode_refused");
    return "";
  }
  draco::DecoderBuffer db;
  db.Init(eb.data(), eb.size());
  draco::PlyDecoder dec;
  std::unique_ptr<draco::PointCloud> out(g.is_mesh ? new draco::Mesh() : new draco::PointCloud());
  draco::Status st = g.is_mesh ? dec.DecodeFromBuffer(&db, static_cast<draco::Mesh *>(out.get())) : dec.DecodeFromBuffer(&db, out.get());
  if (!st.ok()) return "PLY written by PlyEncoder cannot be read back: " + st.error_msg_string();
  const int types[3] = {GeometryAttribute::POSITION, GeometryAttribute::NORMAL, GeometryAttribute::COLOR};
  std::vector<std::pair<const AttSpec *, const draco::PointAttribute *>> pairs;
  for (int t : types) {
    const int ai = att_of_type(g, t);
    if (ai < 0) continue;
    const draco::PointAttribute *d = out->GetNamedAttribute(static_cast<GeometryAttribute::Type>(t));
    if (!d) return "PLY: attribute of type " + std::to_string(t) + " lost";
    if (d->data_type() != g.atts[ai].dtype || d->num_components() != g.atts[ai].ncomp) return "PLY: attribute of type " + std::to_string(t) + " changed its descriptor";
    pairs.push_back({&g.atts[ai], d});
  }
  auto same_point = [&](uint32_t orig_p, uint32_t dec_p) -> bool {
    uint8_t buf[64];
    for (auto &pr : pairs) {
      pr.second->GetMappedValue(PointIndex(dec_p), buf);
      if (memcmp(buf, pr.first->value(pr.first->value_of_point(orig_p)), pr.first->stride()) != 0) return false;
    }
    return true;
  };
  if (g.is_mesh && g.nfaces() > 0) {
    const draco::Mesh &m = static_cast<const draco::Mesh &>(*out);
    if (m.num_faces() != g.nfaces()) return "PLY: face count changed";
    for (size_t f = 0; f < g.nfaces(); ++f)
      for (int k = 0; k < 3; ++k) {
        const uint32_t dp = m.face(FaceIndex(static_cast<uint32_t>(f)))[k].value();
        if (dp >= out->num_points()) return "PLY: face refers to a missing point";
        if (!same_point(g.faces[3 * f + k], dp)) return "PLY: values at corner " + std::to_string(k) + " of face " + std::to_string(f) + " changed";
      }
    count("ply_mesh_checked");
  } else {
    if (out->num_points() != g.npoints) return "PLY: point count changed";
    for (uint32_t p = 0; p < g.npoints; ++p)
      if (!same_point(p, p)) return "PLY: values of point " + std::to_string(p) + " changed";
    count("ply_cloud_checked");
  }
  return "";
}

// ---- STL -----------------------------------------------------------------------------------------
static std::string check_stl(const C15Spec &s, const draco::PointCloud &pc) {
  const GeomSpec &g = s.g;
  if (!g.is_mesh || g.nfaces() == 0) return "";
  draco::EncoderBuffer eb;
  draco::StlEncoder enc;
  draco::Status st = enc.EncodeToBuffer(static_cast<const draco::Mesh &>(pc), &eb);
  if (!st.ok()) {
    count("stl_encode_refused");
    return "";
  }
  draco::DecoderBuffer db;
  db.Init(eb.data(), eb.size());
  draco::StlDecoder dec;
  auto r = dec.DecodeFromBuffer(&db);
  if (!r.ok()) return "STL written by StlEncoder cannot be read back: " + r.status().error_msg_string();
  std::unique_ptr<draco::Mesh> m = std::move(r).value();
  if (!m) return "STL decoder returned no mesh";
  const int pa = att_of_type(g, GeometryAttribute::POSITION);
  const draco::PointAttribute *dp = m->GetNamedAttribute(GeometryAttribute::POSITION);
  if (!dp || dp->data_type() != draco::DT_FLOAT32 || dp->num_components() != 3) return "STL: position attribute missing";
  typedef std::array<std::string, 3> TK;
  auto canon = [](TK t) {
    TK b = t;
    for (int r2 = 1; r2 < 3; ++r2) {
      TK c = {t[r2], t[(r2 + 1) % 3], t[(r2 + 2) % 3]};
      if (c < b) b = c;
    }
    return b;
  };
  std::vector<TK> want, got;
  for (size_t f = 0; f < g.nfaces(); ++f) {
    TK t;
    for (int k = 0; k < 3; ++k) t[k].assign(reinterpret_cast<const char *>(g.atts[pa].value(g.atts[pa].value_of_point(g.faces[3 * f + k]))), 12);
    want.push_back(canon(t));
  }
  if (m->num_faces() != g.nfaces()) return "STL: face count changed";
  for (uint32_t f = 0; f < m->num_faces(); ++f) {
    TK t;
    for (int k = 0; k < 3; ++k) {
      uint8_t buf[12];
      dp->GetMappedValue(m->face(FaceIndex(f))[k], buf);
      t[k].assign(reinterpret_cast<const char *>(buf), 12);
    }
    got.push_back(canon(t));
  }
  std::sort(want.begin(), want.end());
  std::sort(got.begin(), got.end());
  if (want != got) return "STL: the triangle soup (position bits, orientation) changed";
  count("stl_checked");
  return "";
}

// ---- OBJ -----------------------------------------------------------------------------------------
// compares `out` (read back) with the spec; faces and corners correspond in order
static std::string compare_obj(const GeomSpec &g, const draco::PointCloud &out, const char *who) {
  const int types[3] = {GeometryAttribute::POSITION, GeometryAttribute::TEX_COORD, GeometryAttribute::NORMAL};
  struct Pair { const AttSpec *a; const draco::PointAttribute *d; };
  std::vector<Pair> pairs;
  for (int t : types) {
    const int ai = att_of_type(g, t);
    if (ai < 0) continue;
    const draco::PointAttribute *d = out.GetNamedAttribute(static_cast<GeometryAttribute::Type>(t));
    if (!d) return std::string(who) + ": attribute of type " + std::to_string(t) + " lost";
    if (d->data_type() != draco::DT_FLOAT32 || d->num_components() != g.atts[ai].ncomp) return std::string(who) + ": attribute descriptor changed";
    pairs.push_back({&g.atts[ai], d});
  }
  if (g.is_mesh && g.nfaces() > 0) {
    const draco::Mesh &m = static_cast<const draco::Mesh &>(out);
    if (m.num_faces() != g.nfaces()) return std::string(who) + ": face count changed (" + std::to_string(m.num_faces()) + " vs " + std::to_string(g.nfaces()) + ")";
    for (auto &pr : pairs) {
      // value check per corner + sharing structure of the value entries
      std::map<uint32_t, uint32_t> orig_to_dec;   // original entry -> decoded entry (must be a function)
      std::map<uint32_t, std::string> dec_text;   // decoded entry -> printed text of the original value (must be unique)
      for (size_t c = 0; c < g.nfaces() * 3; ++c) {
        const uint32_t op = g.faces[c];
        const uint32_t dpnt = m.face(FaceIndex(static_cast<uint32_t>(c / 3)))[c % 3].value();
        if (dpnt >= out.num_points()) return std::string(who) + ": face refers to a missing point";
        const uint32_t oe = pr.a->value_of_point(op);
        const uint32_t de = pr.d->mapped_index(PointIndex(dpnt)).value();
        float dv[4];
        pr.d->GetValue(AttributeValueIndex(de), dv);
        std::string text;
        for (int k = 0; k < pr.a->ncomp; ++k) {
          const float ov = pr.a->getf(oe, k);
          if (!close6(ov, dv[k])) {
            return std::string(who) + ": type " + std::to_string(pr.a->type) + " value " + std::to_string(ov) + " read back as " + std::to_string(dv[k]) + " (beyond 6-decimal precision)";
          }
          text += f6(ov) + " ";
        }
        auto it = orig_to_dec.find(oe);
        if (it == orig_to_dec.end()) orig_to_dec[oe] = de;
        else if (it->second != de) return std::string(who) + ": two corners that shared one value entry (type " + std::to_string(pr.a->type) + ") no longer share it (seam / connectivity changed)";
        auto jt = dec_text.find(de);
        if (jt == dec_text.end()) dec_text[de] = text;
        else if (jt->second != text) return std::string(who) + ": two corners with different printed values were merged into one entry (type " + std::to_string(pr.a->type) + ")";
      }
    }
    count(std::string(who) + "_mesh_checked");
  } else {
    // The OBJ reader merges points that are identical after parsing: a cloud comes back as the set of its distinct
    // printed points, in first-occurrence order.
    std::vector<uint32_t> firsts;
    std::set<std::string> seen;
    for (uint32_t p = 0; p < g.npoints; ++p) {
      std::string text;
      for (auto &pr : pairs)
        for (int k = 0; k < pr.a->ncomp; ++k) text += f6(pr.a->getf(pr.a->value_of_point(p), k)) + " ";
      if (seen.insert(text).second) firsts.push_back(p);
    }
    if (out.num_points() != firsts.size()) {
      return std::string(who) + ": " + std::to_string(out.num_points()) + " points read back, " + std::to_string(firsts.size()) + " distinct points written";
    }
    for (auto &pr : pairs) {
      for (uint32_t i = 0; i < firsts.size(); ++i) {
        float dv[4];
        pr.d->GetMappedValue(PointIndex(i), dv);
        for (int k = 0; k < pr.a->ncomp; ++k)
          if (!close6(pr.a->getf(pr.a->value_of_point(firsts[i]), k), dv[k])) return std::string(who) + ": point value changed beyond 6-decimal precision";
      }
    }
    count(std::string(who) + "_cloud_checked");
  }
  return "";
}

static std::string check_obj(const C15Spec &s, const draco::PointCloud &pc) {
  const GeomSpec &g = s.g;
  draco::EncoderBuffer eb;
  draco::ObjEncoder enc;
  const bool ok = g.is_mesh ? enc.EncodeToBuffer(static_cast<const draco::Mesh &>(pc), &eb) : enc.EncodeToBuffer(pc, &eb);
  if (!ok) {
    count("obj_encode_refused");
    return "";
  }
  draco::DecoderBuffer db;
  db.Init(eb.data(), eb.size());
  draco::ObjDecoder dec;
  std::unique_ptr<draco::PointCloud> out(g.is_mesh && g.nfaces() > 0 ? new draco::Mesh() : new draco::PointCloud());
  draco::Status st = (g.is_mesh && g.nfaces() > 0) ? dec.DecodeFromBuffer(&db, static_cast<draco::Mesh *>(out.get())) : dec.DecodeFromBuffer(&db, out.get());
  if (!st.ok()) return "OBJ written by ObjEncoder cannot be read back: " + st.error_msg_string();
  return compare_obj(g, *out, "obj");
}

// ---- command line pipeline ---------------------------------------------------------------------------
static bool write_file(const std::string &path, const char *data, size_t n) {
  std::ofstream f(path, std::ios::binary);
  f.write(data, n);
  return f.good();
}
static bool read_file(const std::string &path, std::vector<char> *out) {
  std::ifstream f(path, std::ios::binary);
  if (!f) return false;
  out->assign(std::istreambuf_iterator<char>(f), std::istreambuf_iterator<char>());
  return true;
}

// triangle multiset with tolerant per-corner values: sort both sides by rounded keys, then compare pairwise
static std::string compare_unordered(const GeomSpec &g, const draco::PointCloud &out, const char *who, bool exact) {
  const int types[4] = {GeometryAttribute::POSITION, GeometryAttribute::TEX_COORD, GeometryAttribute::NORMAL, GeometryAttribute::COLOR};
  struct Pair { const AttSpec *a; const draco::PointAttribute *d; };
  std::vector<Pair> pairs;
  for (int t : types) {
    const int ai = att_of_type(g, t);
    if (ai < 0) continue;
    if (exact && t == GeometryAttribute::TEX_COORD) continue;  // (PLY: tex coords are not part of the claim)
    if (!exact && t == GeometryAttribute::COLOR) continue;     // (OBJ carries no colours)
    const draco::PointAttribute *d = out.GetNamedAttribute(static_cast<GeometryAttribute::Type>(t));
    if (!d) return std::string(who) + ": attribute of type " + std::to_string(t) + " lost";
    pairs.push_back({&g.atts[ai], d});
  }
  typedef std::vector<double> Key;
  auto orig_key = [&](uint32_t p) {
    Key k;
    for (auto &pr : pairs)
      for (int c = 0; c < pr.a->ncomp; ++c) {
        if (pr.a->dtype == draco::DT_FLOAT32) {
          const float x = pr.a->getf(pr.a->value_of_point(p), c);
          // OBJ: the value that enters the pipeline is the parse of the 6-decimal text; printing and parsing it again
          // is a fixed point, so the comparison can be exact
          k.push_back(exact ? x : std::strtof(f6(x).c_str(), nullptr));
        } else {
          k.push_back(pr.a->value(pr.a->value_of_point(p))[c]);
        }
      }
    return k;
  };
  auto dec_key = [&](uint32_t p) {
    Key k;
    for (auto &pr : pairs) {
      uint8_t buf[64];
      pr.d->GetMappedValue(PointIndex(p), buf);
      for (int c = 0; c < pr.a->ncomp; ++c) {
        if (pr.a->dtype == draco::DT_FLOAT32) {
          float f;
          memcpy(&f, buf + 4 * c, 4);
          k.push_back(f);
        } else {
          k.push_back(buf[c]);
        }
      }
    }
    return k;
  };
  auto near = [&](const Key &a, const Key &b) {
    for (size_t i = 0; i < a.size(); ++i) {
      if (a[i] != b[i] || std::signbit(a[i]) != std::signbit(b[i])) return false;
    }
    return true;
  };
  auto rot_min = [](std::array<Key, 3> t) {
    std::array<Key, 3> b = t;
    for (int r = 1; r < 3; ++r) {
      std::array<Key, 3> c = {t[r], t[(r + 1) % 3], t[(r + 2) % 3]};
      if (c < b) b = c;
    }
    return b;
  };
  if (g.is_mesh && g.nfaces() > 0) {
    const draco::Mesh &m = static_cast<const draco::Mesh &>(out);
    // degenerate faces (by position entry) may be dropped by the Edgebreaker coder
    const int pa = att_of_type(g, GeometryAttribute::POSITION);
    std::vector<std::array<Key, 3>> want, want_deg, got;
    for (size_t f = 0; f < g.nfaces(); ++f) {
      std::array<Key, 3> t;
      uint32_t pe[3];
      for (int k = 0; k < 3; ++k) {
        t[k] = orig_key(g.faces[3 * f + k]);
        pe[k] = g.atts[pa].value_of_point(g.faces[3 * f + k]);
      }
      // after a text round trip two position entries with the same printed text are one entry
      bool deg = false;
      for (int k = 0; k < 3; ++k) {
        const uint32_t a = pe[k], b = pe[(k + 1) % 3];
        bool same = a == b;
        if (!same && !exact) {
          same = true;
          for (int c = 0; c < 3; ++c) same &= f6(g.atts[pa].getf(a, c)) == f6(g.atts[pa].getf(b, c));
        }
        if (!same && exact) same = memcmp(g.atts[pa].value(a), g.atts[pa].value(b), 12) == 0;
        deg |= same;
      }
      (deg ? want_deg : want).push_back(rot_min(t));
    }
    for (uint32_t f = 0; f < m.num_faces(); ++f) {
      std::array<Key, 3> t;
      for (int k = 0; k < 3; ++k) t[k] = dec_key(m.face(FaceIndex(f))[k].value());
      got.push_back(rot_min(t));
    }
    if (got.size() < want.size() || got.size() > want.size() + want_deg.size()) {
      return std::string(who) + ": " + std::to_string(got.size()) + " faces come back, " + std::to_string(want.size()) + " (+" + std::to_string(want_deg.size()) + " degenerate) went in";
    }
    // greedy matching on sorted lists is not safe with tolerances: match each wanted triangle to an unused decoded one
    std::vector<char> used(got.size(), 0);
    auto tri_near = [&](const std::array<Key, 3> &a, const std::array<Key, 3> &b) {
      for (int r = 0; r < 3; ++r) {
        bool okr = true;
        for (int k = 0; k < 3 && okr; ++k) okr = near(a[k], b[(k + r) % 3]);
        if (okr) return true;
      }
      return false;
    };
    for (auto &w : want) {
      bool found = false;
      for (size_t j = 0; j < got.size() && !found; ++j)
        if (!used[j] && tri_near(w, got[j])) used[j] = found = true;
      if (!found) return std::string(who) + ": a triangle (with its per-corner values, orientation) is missing after the pipeline";
    }
    for (size_t j = 0; j < got.size(); ++j) {
      if (used[j]) continue;
      bool found = false;
      for (auto &w : want_deg) found |= tri_near(w, got[j]);
      if (!found) return std::string(who) + ": the pipeline produced a triangle that was not in the input";
    }
  } else {
    // the readers merge identical points of a cloud: compare as sets (every input point has a near decoded one and
    // vice versa); with exact comparison the multiplicities must match when no two input points are equal
    if (out.num_points() > g.npoints) return std::string(who) + ": more points come back than went in";
    for (uint32_t p = 0; p < g.npoints; ++p) {
      const Key w = orig_key(p);
      bool found = false;
      for (uint32_t j = 0; j < out.num_points() && !found; ++j) found = near(w, dec_key(j));
      if (!found) return std::string(who) + ": a point is missing after the pipeline";
    }
    for (uint32_t j = 0; j < out.num_points(); ++j) {
      const Key w = dec_key(j);
      bool found = false;
      for (uint32_t p = 0; p < g.npoints && !found; ++p) found = near(orig_key(p), w);
      if (!found) return std::string(who) + ": the pipeline produced a point that was not in the input";
    }
    if (exact) {
      std::set<Key> distinct;
      for (uint32_t p = 0; p < g.npoints; ++p) distinct.insert(orig_key(p));
      if (out.num_points() < distinct.size()) return std::string(who) + ": distinct points were lost";
    }
  }
  return "";
}

static std::string check_cli(const C15Spec &s, const draco::PointCloud &pc) {
  const GeomSpec &g = s.g;
  static const std::string tools = env("VERIF_TOOLS_DIR", "/verif/build/plain/bin");
  static const std::string tmp = [] {
    std::string d = std::string(env("TMPDIR", "/tmp")) + "/verif_c15_" + std::to_string(getpid());
    mkdir(d.c_str(), 0700);
    return d;
  }();
  auto run = [&](const std::string &cmd) { return system((cmd + " >/dev/null 2>&1").c_str()); };
  // OBJ pipeline
  {
    draco::EncoderBuffer eb;
    draco::ObjEncoder enc;
    const bool ok = g.is_mesh ? enc.EncodeToBuffer(static_cast<const draco::Mesh &>(pc), &eb) : enc.EncodeToBuffer(pc, &eb);
    if (ok && (g.nfaces() > 0 || !g.is_mesh)) {
      const std::string in = tmp + "/in.obj", drc = tmp + "/x.drc", outp = tmp + "/out.obj";
      write_file(in, eb.data(), eb.size());
      unlink(drc.c_str());
      unlink(outp.c_str());
      const std::string pcflag = g.is_mesh && g.nfaces() > 0 ? "" : " -point_cloud";
      if (run(tools + "/draco_encoder -i " + in + " -o " + drc + " -qp 0 -qt 0 -qn 0 -qg 0 -cl " + std::to_string(s.cl) + pcflag) != 0) {
        count("cli_obj_encoder_refused");
      } else {
        if (run(tools + "/draco_decoder -i " + drc + " -o " + outp) != 0) return "draco_decoder fails on a file draco_encoder wrote (obj pipeline)";
        std::vector<char> data;
        if (!read_file(outp, &data)) return "draco_decoder wrote no output file";
        draco::DecoderBuffer db;
        db.Init(data.data(), data.size());
        draco::ObjDecoder dec;
        std::unique_ptr<draco::PointCloud> out(g.is_mesh && g.nfaces() > 0 ? new draco::Mesh() : new draco::PointCloud());
        draco::Status st = (g.is_mesh && g.nfaces() > 0) ? dec.DecodeFromBuffer(&db, static_cast<draco::Mesh *>(out.get())) : dec.DecodeFromBuffer(&db, out.get());
        if (!st.ok()) return "the OBJ written by draco_decoder cannot be read: " + st.error_msg_string();
        std::string e = compare_unordered(g, *out, "cli_obj", false);
        if (!e.empty()) return e;
        count("cli_obj_pipelines");
        count("cli_cl_" + std::to_string(s.cl));
      }
    }
  }
  // PLY pipeline
  {
    draco::EncoderBuffer eb;
    draco::PlyEncoder enc;
    const bool ok = g.is_mesh ? enc.EncodeToBuffer(static_cast<const draco::Mesh &>(pc), &eb) : enc.EncodeToBuffer(pc, &eb);
    if (ok && g.npoints > 0) {
      const std::string in = tmp + "/in.ply", drc = tmp + "/y.drc", outp = tmp + "/out.ply";
      write_file(in, eb.data(), eb.size());
      unlink(drc.c_str());
      unlink(outp.c_str());
      const std::string pcflag = g.is_mesh && g.nfaces() > 0 ? "" : " -point_cloud";
      if (run(tools + "/draco_encoder -i " + in + " -o " + drc + " -qp 0 -qt 0 -qn 0 -qg 0 -cl " + std::to_string(s.cl) + pcflag) != 0) {
        count("cli_ply_encoder_refused");
      } else {
        if (run(tools + "/draco_decoder -i " + drc + " -o " + outp) != 0) return "draco_decoder fails on a file draco_encoder wrote (ply pipeline)";
        std::vector<char> data;
        if (!read_file(outp, &data)) return "draco_decoder wrote no output file";
        draco::DecoderBuffer db;
        db.Init(data.data(), data.size());
        draco::PlyDecoder dec;
        std::unique_ptr<draco::PointCloud> out(g.is_mesh && g.nfaces() > 0 ? new draco::Mesh() : new draco::PointCloud());
        draco::Status st = (g.is_mesh && g.nfaces() > 0) ? dec.DecodeFromBuffer(&db, static_cast<draco::Mesh *>(out.get())) : dec.DecodeFromBuffer(&db, out.get());
        if (!st.ok()) return "the PLY written by draco_decoder cannot be read: " + st.error_msg_string();
        std::string e = compare_unordered(g, *out, "cli_ply", true);
        if (!e.empty()) return e;
        count("cli_ply_pipelines");
      }
    }
  }
  return "";
}

static std::string run_spec(const C15Spec &s, const std::string &mode, bool *nt) {
  std::unique_ptr<draco::PointCloud> pc = build_geometry(s.g);
  std::string e;
  if (mode == "c15cli") {
    e = check_cli(s, *pc);
  } else {
    e = check_ply(s, *pc);
    if (e.empty()) e = check_stl(s, *pc);
    if (e.empty()) e = check_obj(s, *pc);
  }
  // non-trivial: mesh with a seam in tex / normal, or cloud with >= 2 points
  if (s.g.is_mesh) {
    const int pa = att_of_type(s.g, GeometryAttribute::POSITION);
    for (size_t ai = 0; ai < s.g.atts.size() && !*nt; ++ai) {
      if (static_cast<int>(ai) == pa || s.g.atts[ai].type == GeometryAttribute::COLOR) continue;
      std::map<uint32_t, uint32_t> first;
      for (uint32_t c = 0; c < s.g.faces.size() && !*nt; ++c) {
        const uint32_t pe = s.g.atts[pa].value_of_point(s.g.faces[c]), ae = s.g.atts[ai].value_of_point(s.g.faces[c]);
        auto it = first.find(pe);
        if (it == first.end()) first[pe] = ae;
        else if (it->second != ae) *nt = true;
      }
    }
  } else {
    *nt = s.g.npoints >= 2;
  }
  return e;
}

static void regen_float_values(AttSpec &a, bool normal_like) {
  const int mc = W({25, 25, 25, 25});
  const double scale = normal_like ? 1.0 : std::pow(10.0, mc == 0 ? R(-6, -3) : mc == 1 ? R(-2, 1) : mc == 2 ? R(2, 4) : R(5, 6));
  a.dtype = draco::DT_FLOAT32;
  a.data.clear();
  const bool bulk = a.nvalues * a.ncomp > 300;
  SplitMix sm(U64());
  for (uint32_t v = 0; v < a.nvalues; ++v) {
    if (v > 0 && (bulk ? sm.range(0, 99) : R(0, 99)) < 20) {
      const uint32_t src = bulk ? static_cast<uint32_t>(sm.below(v)) : static_cast<uint32_t>(R(0, static_cast<int>(v) - 1));
      const size_t st = a.stride();
      a.data.resize(a.data.size() + st);
      memcpy(a.data.data() + a.data.size() - st, a.data.data() + static_cast<size_t>(src) * st, st);
      continue;
    }
    for (int c = 0; c < a.ncomp; ++c) {
      const int k = bulk ? sm.range(0, 19) : R(0, 19);
      double u = (bulk ? sm.range(-(1 << 20), 1 << 20) : R(-(1 << 20), 1 << 20)) / static_cast<double>(1 << 20);
      float x = static_cast<float>(scale * u);
      if (k == 0) x = 0.f;
      if (k == 1) x = -0.f;
      if (k == 2) x = static_cast<float>(static_cast<int>(scale * u));
      if (k == 3) {
        // just below / above an integer or a 6-decimal rounding boundary (carry into the integer part when printed)
        const float base = static_cast<float>(static_cast<int>(std::max(-16.0, std::min(16.0, scale * u))));
        const int w = bulk ? sm.range(0, 5) : R(0, 5);
        x = w == 0 ? std::nextafterf(base, -100.f) : w == 1 ? std::nextafterf(base, 100.f) : w == 2 ? base - 4e-7f : w == 3 ? base + 0.9999996f : w == 4 ? base + 0.4999995f : base - 0.0000005f;
      }
      a.data.insert(a.data.end(), reinterpret_cast<uint8_t *>(&x), reinterpret_cast<uint8_t *>(&x) + 4);
    }
  }
}

static C15Spec gen_spec(const std::string &mode, std::vector<std::string> *classes) {
  C15Spec s;
  GenCfg cfg;
  cfg.thorough = g_thorough;
  cfg.allow_large = false;
  cfg.quant_pct = 0;
  cfg.mesh_pct = 75;
  cfg.max_extra_atts = 3;
  CaseSpec cs = gen_case(cfg, classes);
  GeomSpec g = cs.g;
  // restrict to what the formats carry: one float32 xyz position, optional float32 normal (3), float32 tex coord (2),
  // uint8 colour (1..4)
  std::vector<AttSpec> keep;
  std::set<int> have;
  for (AttSpec &a : g.atts) {
    if (a.type == GeometryAttribute::GENERIC || have.count(a.type)) continue;
    have.insert(a.type);
    if (a.type == GeometryAttribute::COLOR) {
      a.dtype = draco::DT_UINT8;
      a.ncomp = R(1, 4);
      a.data.clear();
      for (uint32_t v = 0; v < a.nvalues * static_cast<uint32_t>(a.ncomp); ++v) a.data.push_back(static_cast<uint8_t>(R(0, 255)));
    } else {
      a.ncomp = a.type == GeometryAttribute::TEX_COORD ? 2 : 3;
      regen_float_values(a, a.type == GeometryAttribute::NORMAL && P(70));
    }
    a.normalized = 0;
    keep.push_back(a);
  }
  g.atts = keep;
  if (!g.is_mesh || g.nfaces() == 0) {
    // the OBJ writer represents clouds whose attributes all have one value per point
    for (AttSpec &a : g.atts) {
      if (a.identity && a.nvalues == g.npoints) continue;
      std::vector<uint8_t> nd(static_cast<size_t>(g.npoints) * a.stride());
      for (uint32_t p = 0; p < g.npoints; ++p) memcpy(nd.data() + static_cast<size_t>(p) * a.stride(), a.value(a.value_of_point(p)), a.stride());
      a.data.swap(nd);
      a.nvalues = g.npoints;
      a.identity = 1;
      a.map.clear();
    }
  }
  s.g = g;
  s.cl = R(0, 10);
  (void)mode;
  return s;
}

int main(int argc, char **argv) {
  g_thorough = std::string(env("VERIF_TIER", "quick")) == "thorough";
  const std::string mode0 = env("VERIF_MODE", "c15");
  stats().rule =
      mode0 == "c15cli"
          ? "same geometries written to OBJ / PLY files and sent through draco_encoder (-qp 0 -qt 0 -qn 0 -qg 0, -cl 0..10) and "
            "draco_decoder; oracle: triangle / point multiset, exact after one simulated 6-decimal text pass for OBJ, bit-exact for PLY; "
            "non-trivial as below"
          : "geometries from the shared generator restricted to what the formats carry (float32 xyz positions, optional float32 "
            "normals, 2-component float32 tex coords, uint8 colours, magnitudes 1e-6..1e6, +-0, repeated values, seams, "
            "non-manifold / degenerate faces, isolated points): PlyEncoder->PlyDecoder, StlEncoder->StlDecoder, "
            "ObjEncoder->ObjDecoder in process; non-trivial = mesh with a seam in tex coords or normals, or a cloud with >= 2 "
            "points; distinct by spec hash";
  Harness h;
  h.run = [&](const std::string &mode) {
    std::vector<std::string> classes;
    C15Spec s = gen_spec(mode, &classes);
    CaseSpec tmp;
    tmp.g = s.g;
    set_case(mode, to_tokens(s), s.g.npoints <= 100 ? describe_case(tmp) : std::string());
    bool nt = false;
    std::string e = guarded([&] { return run_spec(s, mode, &nt); });
    for (auto &c : classes) count(c);
    if (nt) {
      nontrivial(hash_tokens(to_tokens(s)));
      if (s.g.npoints <= 20) sample(describe_case(tmp), 3);
    }
    return e;
  };
  h.replay = [&](const std::string &mode, const std::vector<int64_t> &t) {
    C15Spec s;
    if (!from_tokens(t, &s)) return std::string("bad replay tokens");
    bool nt = false;
    return guarded([&] { return run_spec(s, mode, &nt); });
  };
  return harness_main(argc, argv, h);
}
