// C14 - mesh-building, de-duplication, clean-up and strip generation never change what the mesh describes.
#include <chrono>

#include "common/geom.h"
#include "draco/mesh/mesh_cleanup.h"
#include "draco/mesh/mesh_stripifier.h"
#include "draco/mesh/triangle_soup_mesh_builder.h"
#include "draco/point_cloud/point_cloud_builder.h"

using namespace vf;
using namespace vg;

static bool g_thorough = false;

struct C14Spec {
  GeomSpec g;
  uint32_t cleanup_mask = 7;       // bit0 degenerate, bit1 duplicate, bit2 unused
  int32_t per_face_att = -1;       // builder: attribute fed through SetPerFaceAttributeValueForFace (values made per-face)
  uint8_t pc_dedup = 1;
  template <class A>
  void io(A &a) {
    a(g); a(cleanup_mask); a(per_face_att); a(pc_dedup);
  }
};

typedef std::array<std::string, 3> TriKey;

static std::string corner_key(const draco::PointCloud &pc, uint32_t p, const std::vector<int> &att_order) {
  std::string k;
  uint8_t buf[256];
  for (int ai : att_order) {
    const draco::PointAttribute *a = pc.attribute(ai);
    a->GetMappedValue(PointIndex(p), buf);
    k.append(reinterpret_cast<const char *>(buf), a->byte_stride());
  }
  return k;
}
static TriKey canon_tri(TriKey t) {
  TriKey b = t;
  for (int r = 1; r < 3; ++r) {
    TriKey c = {t[r], t[(r + 1) % 3], t[(r + 2) % 3]};
    if (c < b) b = c;
  }
  return b;
}
static std::vector<int> order_by_uid(const draco::PointCloud &pc) {
  std::vector<int> o(pc.num_attributes());
  for (size_t i = 0; i < o.size(); ++i) o[i] = static_cast<int>(i);
  std::sort(o.begin(), o.end(), [&](int a, int b) { return pc.attribute(a)->unique_id() < pc.attribute(b)->unique_id(); });
  return o;
}
static std::vector<TriKey> mesh_model(const draco::Mesh &m) {
  const std::vector<int> ord = order_by_uid(m);
  std::vector<TriKey> out;
  for (uint32_t f = 0; f < m.num_faces(); ++f) {
    TriKey t;
    for (int k = 0; k < 3; ++k) t[k] = corner_key(m, m.face(FaceIndex(f))[k].value(), ord);
    out.push_back(t);
  }
  return out;
}
static std::string structural(const draco::PointCloud &pc, const draco::Mesh *m) {
  for (int a = 0; a < pc.num_attributes(); ++a) {
    const draco::PointAttribute *att = pc.attribute(a);
    if (!att->is_mapping_identity() && att->indices_map_size() != pc.num_points()) return "attribute map size != num_points";
    if (att->is_mapping_identity() && att->size() < pc.num_points()) return "identity-mapped attribute has fewer values than points";
    for (uint32_t p = 0; p < pc.num_points(); ++p)
      if (att->mapped_index(PointIndex(p)).value() >= att->size()) return "point maps to a value that does not exist";
    if (att->buffer() == nullptr) {
      if (att->size() != 0) return "attribute without a buffer reports values";
    } else if (static_cast<int64_t>(att->size()) * att->byte_stride() > static_cast<int64_t>(att->buffer()->data_size())) {
      return "attribute buffer too small";
    }
  }
  if (m)
    for (uint32_t f = 0; f < m->num_faces(); ++f)
      for (int k = 0; k < 3; ++k)
        if (m->face(FaceIndex(f))[k].value() >= pc.num_points()) return "face refers to a point that does not exist";
  return "";
}
static bool dedup_supported(const draco::PointAttribute &a) {
  switch (a.data_type()) {
    case draco::DT_FLOAT32: case draco::DT_INT8: case draco::DT_UINT8: case draco::DT_BOOL: case draco::DT_UINT16: case draco::DT_INT16:
    case draco::DT_UINT32: case draco::DT_INT32: return a.num_components() >= 1 && a.num_components() <= 4;
    default: return false;
  }
}
// after de-duplication: no two stored values bit-identical, no two points with all value indices equal
static std::string dedup_post(const draco::PointCloud &pc) {
  if (pc.num_points() == 0) return "";  // nothing is de-duplicated in a geometry without points
  for (int a = 0; a < pc.num_attributes(); ++a) {
    const draco::PointAttribute *att = pc.attribute(a);
    if (!dedup_supported(*att)) continue;
    std::set<std::string> seen;
    for (uint32_t v = 0; v < att->size(); ++v) {
      std::string s(reinterpret_cast<const char *>(att->GetAddress(AttributeValueIndex(v))), att->byte_stride());
      if (!seen.insert(s).second) return "attribute " + std::to_string(a) + " still holds two bit-identical values after de-duplication";
    }
  }
  std::set<std::vector<uint32_t>> pts;
  for (uint32_t p = 0; p < pc.num_points(); ++p) {
    std::vector<uint32_t> t;
    for (int a = 0; a < pc.num_attributes(); ++a) t.push_back(pc.attribute(a)->mapped_index(PointIndex(p)).value());
    if (!pts.insert(t).second) return "two points share all attribute value indices after point de-duplication";
  }
  return "";
}

static std::string check_builder(const C14Spec &s, bool *nt) {
  const GeomSpec &g = s.g;
  if (g.nfaces() == 0) return "";
  draco::TriangleSoupMeshBuilder b;
  b.Start(static_cast<int>(g.nfaces()));
  std::vector<int> ids;
  for (const AttSpec &a : g.atts) {
    const int id = b.AddAttribute(static_cast<GeometryAttribute::Type>(a.type), static_cast<int8_t>(a.ncomp), static_cast<DataType>(a.dtype), a.normalized != 0);
    b.SetAttributeUniqueId(id, a.unique_id);
    ids.push_back(id);
  }
  // expected model: per face per corner value bytes (per-face attribute: value of corner 0 on all three corners)
  std::vector<TriKey> want(g.nfaces());
  std::vector<int> ord(g.atts.size());
  for (size_t i = 0; i < ord.size(); ++i) ord[i] = static_cast<int>(i);
  std::sort(ord.begin(), ord.end(), [&](int x, int y) { return g.atts[x].unique_id < g.atts[y].unique_id; });
  for (size_t f = 0; f < g.nfaces(); ++f) {
    for (size_t ai = 0; ai < g.atts.size(); ++ai) {
      const AttSpec &a = g.atts[ai];
      const uint8_t *v[3];
      for (int k = 0; k < 3; ++k) v[k] = a.value(a.value_of_point(g.faces[3 * f + k]));
      if (static_cast<int>(ai) == s.per_face_att) {
        b.SetPerFaceAttributeValueForFace(ids[ai], FaceIndex(static_cast<uint32_t>(f)), v[0]);
      } else {
        b.SetAttributeValuesForFace(ids[ai], FaceIndex(static_cast<uint32_t>(f)), v[0], v[1], v[2]);
      }
    }
    for (int k = 0; k < 3; ++k) {
      for (int ai : ord) {
        const AttSpec &a = g.atts[ai];
        const uint8_t *v = a.value(a.value_of_point(g.faces[3 * f + (ai == s.per_face_att ? 0 : k)]));
        want[f][k].append(reinterpret_cast<const char *>(v), a.stride());
      }
    }
  }
  std::unique_ptr<draco::Mesh> m = b.Finalize();
  bool all_supported = true;
  for (const AttSpec &a : g.atts) {
    draco::PointAttribute tmp;
    tmp.Init(static_cast<GeometryAttribute::Type>(a.type), static_cast<int8_t>(a.ncomp), static_cast<DataType>(a.dtype), false, 1);
    all_supported &= dedup_supported(tmp);
  }
  if (!m) {
    count("builder_finalize_refused");
    if (all_supported) return "TriangleSoupMeshBuilder::Finalize fails although every attribute has a supported type";
    return "";
  }
  count("builder_finalized");
  std::string e = structural(*m, m.get());
  if (!e.empty()) return "builder: " + e;
  if (m->num_faces() != g.nfaces()) return "builder: face count changed";
  const std::vector<TriKey> got = mesh_model(*m);
  for (size_t f = 0; f < g.nfaces(); ++f)
    if (got[f] != want[f]) return "builder: corner values of face " + std::to_string(f) + " changed";
  if (all_supported) {
    e = dedup_post(*m);
    if (!e.empty()) return "builder: " + e;
    // idempotent
    const uint32_t np = m->num_points();
    std::vector<size_t> sizes;
    for (int a = 0; a < m->num_attributes(); ++a) sizes.push_back(m->attribute(a)->size());
    if (!m->DeduplicateAttributeValues()) return "second DeduplicateAttributeValues failed";
    m->DeduplicatePointIds();
    if (m->num_points() != np) return "de-duplication is not idempotent (point count changes on the second pass)";
    for (int a = 0; a < m->num_attributes(); ++a)
      if (m->attribute(a)->size() != sizes[a]) return "de-duplication is not idempotent (value count changes on the second pass)";
    if (mesh_model(*m) != want) return "second de-duplication changed the mesh";
    *nt = true;
  }
  return "";
}

static std::string check_direct_dedup(const C14Spec &s) {
  std::unique_ptr<draco::PointCloud> pc = build_geometry(s.g);
  draco::Mesh *m = s.g.is_mesh ? static_cast<draco::Mesh *>(pc.get()) : nullptr;
  const std::vector<int> ord = order_by_uid(*pc);
  std::vector<TriKey> before;
  std::multiset<std::string> pts_before;
  if (m) before = mesh_model(*m);
  for (uint32_t p = 0; p < pc->num_points(); ++p) pts_before.insert(corner_key(*pc, p, ord));
  bool all_supported = true;
  for (int a = 0; a < pc->num_attributes(); ++a) all_supported &= dedup_supported(*pc->attribute(a));
  const bool ok = pc->DeduplicateAttributeValues();
  if (!ok && all_supported && pc->num_points() > 0) return "DeduplicateAttributeValues fails on supported attribute types";
  pc->DeduplicatePointIds();
  std::string e = structural(*pc, m);
  if (!e.empty()) return "dedup: " + e;
  if (m) {
    if (mesh_model(*m) != before) return "dedup: the triangles (per-corner values) changed";
  }
  std::set<std::string> a, b;
  for (uint32_t p = 0; p < pc->num_points(); ++p) b.insert(corner_key(*pc, p, ord));
  for (auto &k : pts_before) a.insert(k);
  if (a != b) return "dedup: the set of distinct points changed";
  if (ok) {
    e = dedup_post(*pc);
    if (!e.empty()) return "dedup: " + e;
  }
  count(ok ? "direct_dedup_ok" : "direct_dedup_unsupported_type");
  return "";
}

static std::string check_cleanup(const C14Spec &s) {
  if (!s.g.is_mesh) return "";
  std::unique_ptr<draco::PointCloud> pc = build_geometry(s.g);
  draco::Mesh *m = static_cast<draco::Mesh *>(pc.get());
  const int pa = s.g.pos_att();
  const std::vector<TriKey> before = mesh_model(*m);
  // position value index triples and point id triples of the input faces
  std::vector<std::array<uint32_t, 3>> pos_idx(s.g.nfaces()), pt_idx(s.g.nfaces());
  for (size_t f = 0; f < s.g.nfaces(); ++f)
    for (int k = 0; k < 3; ++k) {
      pt_idx[f][k] = s.g.faces[3 * f + k];
      pos_idx[f][k] = pa >= 0 ? s.g.atts[pa].value_of_point(pt_idx[f][k]) : pt_idx[f][k];
    }
  draco::MeshCleanupOptions opt;
  opt.remove_degenerated_faces = s.cleanup_mask & 1;
  opt.remove_duplicate_faces = (s.cleanup_mask >> 1) & 1;
  opt.remove_unused_attributes = (s.cleanup_mask >> 2) & 1;
  draco::Status st = draco::MeshCleanup::Cleanup(m, opt);
  if (!st.ok()) {
    count("cleanup_error");
    return "";
  }
  count("cleanup_mask_" + std::to_string(s.cleanup_mask));
  std::string e = structural(*m, m);
  if (!e.empty()) return "cleanup: " + e;
  const std::vector<TriKey> after = mesh_model(*m);
  auto canon_idx = [](std::array<uint32_t, 3> t) {
    std::array<uint32_t, 3> b = t;
    for (int r = 1; r < 3; ++r) {
      std::array<uint32_t, 3> c = {t[r], t[(r + 1) % 3], t[(r + 2) % 3]};
      if (c < b) b = c;
    }
    return b;
  };
  // Kept faces appear in input order. Find an embedding of the output into the input (by per-corner values, rotation
  // allowed) in which only removable faces are skipped: position-degenerate ones (all of them when the option is on)
  // and faces that share their position indices with another input face.
  const size_t n = before.size(), mm = after.size();
  std::vector<char> is_deg(n), has_twin(n);
  {
    std::map<std::array<uint32_t, 3>, int> cnt;
    // a face counts as a removable duplicate when an earlier face has the same position indices: the first face of
    // such a group always stays (the tool keeps first occurrences), which also guarantees that a removed duplicate
    // has a kept twin
    for (size_t i = 0; i < n; ++i) {
      is_deg[i] = pos_idx[i][0] == pos_idx[i][1] || pos_idx[i][1] == pos_idx[i][2] || pos_idx[i][0] == pos_idx[i][2];
      has_twin[i] = cnt[canon_idx(pos_idx[i])]++ > 0;
    }
  }
  auto must_skip = [&](size_t i) { return opt.remove_degenerated_faces && is_deg[i]; };
  auto may_skip = [&](size_t i) { return (opt.remove_degenerated_faces && is_deg[i]) || (opt.remove_duplicate_faces && has_twin[i]); };
  std::vector<TriKey> cb(n), ca(mm);
  for (size_t i = 0; i < n; ++i) cb[i] = canon_tri(before[i]);
  for (size_t j = 0; j < mm; ++j) ca[j] = canon_tri(after[j]);
  std::vector<std::vector<char>> feas(n + 1, std::vector<char>(mm + 1, 0));
  feas[n][mm] = 1;
  for (size_t ii = n; ii-- > 0;) {
    for (size_t jj = mm + 1; jj-- > 0;) {
      bool f = false;
      if (jj < mm && !must_skip(ii) && cb[ii] == ca[jj] && feas[ii + 1][jj + 1]) f = true;
      if (!f && may_skip(ii) && feas[ii + 1][jj]) f = true;
      feas[ii][jj] = f;
    }
  }
  if (!feas[0][0]) {
    return "cleanup: the output is not the input minus removable faces (a face changed its corner values, orientation or order, "
           "or a face that is neither degenerate nor a duplicate was removed)";
  }
  std::vector<char> kept(n, 0);
  for (size_t i = 0, j = 0; i < n; ++i) {
    if (j < mm && !must_skip(i) && cb[i] == ca[j] && feas[i + 1][j + 1]) {
      kept[i] = 1;
      ++j;
    }
  }
  std::set<std::array<uint32_t, 3>> kept_pos;
  for (size_t i = 0; i < before.size(); ++i)
    if (kept[i]) kept_pos.insert(canon_idx(pos_idx[i]));
  int removed = 0;
  for (size_t i = 0; i < before.size(); ++i) {
    if (kept[i]) continue;
    ++removed;
    const bool deg = pos_idx[i][0] == pos_idx[i][1] || pos_idx[i][1] == pos_idx[i][2] || pos_idx[i][0] == pos_idx[i][2];
    const bool dup = has_twin[i] != 0;
    (void)kept_pos;
    if (!((deg && opt.remove_degenerated_faces) || (dup && opt.remove_duplicate_faces))) {
      if (*env("VERIF_TRACE")) {
        for (size_t q = 0; q < before.size(); ++q)
          fprintf(stderr, "face %zu points (%u,%u,%u) pos (%u,%u,%u) kept=%d key=%s\n", q, pt_idx[q][0], pt_idx[q][1], pt_idx[q][2], pos_idx[q][0], pos_idx[q][1],
                  pos_idx[q][2], kept[q], hex(reinterpret_cast<const uint8_t *>(cb[q][0].data()), cb[q][0].size()).c_str());
        for (uint32_t f = 0; f < m->num_faces(); ++f)
          fprintf(stderr, "out face %u points (%u,%u,%u)\n", f, m->face(FaceIndex(f))[0].value(), m->face(FaceIndex(f))[1].value(), m->face(FaceIndex(f))[2].value());
      }
      return "cleanup: face " + std::to_string(i) + " was removed although it is neither degenerate nor a duplicate of a kept face (under the enabled options)";
    }
  }
  // post-conditions (evaluated on the output mesh itself)
  const draco::PointAttribute *pos = m->GetNamedAttribute(GeometryAttribute::POSITION);
  std::set<std::array<uint32_t, 3>> seen_pts;
  for (uint32_t f = 0; f < m->num_faces(); ++f) {
    std::array<uint32_t, 3> pi, pp;
    for (int k = 0; k < 3; ++k) {
      pp[k] = m->face(FaceIndex(f))[k].value();
      pi[k] = pos->mapped_index(PointIndex(pp[k])).value();
    }
    if (opt.remove_degenerated_faces && (pi[0] == pi[1] || pi[1] == pi[2] || pi[0] == pi[2])) return "cleanup: a position-degenerate face remains";
    // (faces that repeat a point id have no unique rotation in the tool's comparison; they are position-degenerate and
    // fall under the other option)
    if (opt.remove_duplicate_faces && pp[0] != pp[1] && pp[1] != pp[2] && pp[0] != pp[2] && !seen_pts.insert(canon_idx(pp)).second)
      return "cleanup: two faces with identical point ids remain";
  }
  if (opt.remove_unused_attributes) {
    std::vector<char> used(m->num_points(), 0);
    for (uint32_t f = 0; f < m->num_faces(); ++f)
      for (int k = 0; k < 3; ++k) used[m->face(FaceIndex(f))[k].value()] = 1;
    for (uint32_t p = 0; p < m->num_points(); ++p)
      if (!used[p]) return "cleanup: an unused point remains";
    for (int a = 0; a < m->num_attributes(); ++a) {
      std::vector<char> vu(m->attribute(a)->size(), 0);
      for (uint32_t p = 0; p < m->num_points(); ++p) vu[m->attribute(a)->mapped_index(PointIndex(p)).value()] = 1;
      for (char c : vu)
        if (!c) return "cleanup: an unused attribute value remains";
    }
  } else if (m->num_points() != s.g.npoints) {
    return "cleanup: point count changed although unused-attribute removal is off";
  }
  if (removed) count("cleanup_removed_faces");
  return "";
}

static std::string check_strips(const C14Spec &s, bool *nt) {
  if (!s.g.is_mesh || s.g.nfaces() == 0) return "";
  std::unique_ptr<draco::PointCloud> pc = build_geometry(s.g);
  draco::Mesh *m = static_cast<draco::Mesh *>(pc.get());
  typedef std::array<uint32_t, 3> T3;
  auto canon_idx = [](T3 t) {
    T3 b = t;
    for (int r = 1; r < 3; ++r) {
      T3 c = {t[r], t[(r + 1) % 3], t[(r + 2) % 3]};
      if (c < b) b = c;
    }
    return b;
  };
  std::vector<T3> want, want_nondeg;
  for (size_t f = 0; f < s.g.nfaces(); ++f) {
    T3 t = {s.g.faces[3 * f], s.g.faces[3 * f + 1], s.g.faces[3 * f + 2]};
    want.push_back(canon_idx(t));
    if (t[0] != t[1] && t[1] != t[2] && t[0] != t[2]) want_nondeg.push_back(canon_idx(t));
  }
  std::sort(want.begin(), want.end());
  std::sort(want_nondeg.begin(), want_nondeg.end());
  // primitive restart
  {
    draco::MeshStripifier st;
    std::vector<uint32_t> out;
    const uint32_t kRestart = 0xffffffffu;
    if (!st.GenerateTriangleStripsWithPrimitiveRestart(*m, kRestart, std::back_inserter(out))) {
      count("stripifier_refused");
      return "";
    }
    std::vector<T3> got;
    int strips = 0;
    size_t i = 0;
    while (i < out.size()) {
      size_t e = i;
      while (e < out.size() && out[e] != kRestart) ++e;
      if (e - i < 3) return "strip with fewer than 3 indices";
      ++strips;
      for (size_t k = i; k + 2 < e; ++k) {
        T3 t = ((k - i) & 1) ? T3{out[k + 1], out[k], out[k + 2]} : T3{out[k], out[k + 1], out[k + 2]};
        for (int c = 0; c < 3; ++c)
          if (t[c] >= m->num_points()) return "strip index out of range";
        got.push_back(canon_idx(t));
      }
      i = e + 1;
    }
    std::sort(got.begin(), got.end());
    if (got != want) return "primitive-restart strips decode to a different triangle multiset (" + std::to_string(got.size()) + " vs " + std::to_string(want.size()) + " faces)";
    if (strips != st.num_strips()) return "num_strips() = " + std::to_string(st.num_strips()) + " but the output holds " + std::to_string(strips) + " strips";
    if (strips < static_cast<int>(want.size())) *nt = true;  // at least one strip with >= 2 faces
    count("strips_restart_checked");
  }
  // degenerate triangles
  {
    draco::MeshStripifier st;
    std::vector<uint32_t> out;
    if (!st.GenerateTriangleStripsWithDegenerateTriangles(*m, std::back_inserter(out))) return "";
    std::vector<T3> got;
    for (size_t k = 0; k + 2 < out.size(); ++k) {
      T3 t = (k & 1) ? T3{out[k + 1], out[k], out[k + 2]} : T3{out[k], out[k + 1], out[k + 2]};
      for (int c = 0; c < 3; ++c)
        if (t[c] >= m->num_points()) return "strip index out of range";
      if (t[0] == t[1] || t[1] == t[2] || t[0] == t[2]) continue;  // stitching
      got.push_back(canon_idx(t));
    }
    std::sort(got.begin(), got.end());
    if (got != want_nondeg) return "degenerate-triangle strip decodes to a different triangle multiset (" + std::to_string(got.size()) + " vs " + std::to_string(want_nondeg.size()) + " faces)";
    count("strips_degenerate_checked");
  }
  return "";
}

static std::string check_pc_builder(const C14Spec &s) {
  const GeomSpec &g = s.g;
  if (g.is_mesh || g.npoints == 0) return "";
  draco::PointCloudBuilder b;
  b.Start(g.npoints);
  std::vector<int> ord(g.atts.size());
  for (size_t i = 0; i < ord.size(); ++i) ord[i] = static_cast<int>(i);
  std::sort(ord.begin(), ord.end(), [&](int x, int y) { return g.atts[x].unique_id < g.atts[y].unique_id; });
  bool all_supported = true;
  for (const AttSpec &a : g.atts) {
    const int id = b.AddAttribute(static_cast<GeometryAttribute::Type>(a.type), static_cast<int8_t>(a.ncomp), static_cast<DataType>(a.dtype), a.normalized != 0);
    b.SetAttributeUniqueId(id, a.unique_id);
    for (uint32_t p = 0; p < g.npoints; ++p) b.SetAttributeValueForPoint(id, PointIndex(p), a.value(a.value_of_point(p)));
    draco::PointAttribute tmp;
    tmp.Init(static_cast<GeometryAttribute::Type>(a.type), static_cast<int8_t>(a.ncomp), static_cast<DataType>(a.dtype), false, 1);
    all_supported &= dedup_supported(tmp);
  }
  std::vector<std::string> want;
  for (uint32_t p = 0; p < g.npoints; ++p) {
    std::string k;
    for (int ai : ord) k.append(reinterpret_cast<const char *>(g.atts[ai].value(g.atts[ai].value_of_point(p))), g.atts[ai].stride());
    want.push_back(k);
  }
  std::unique_ptr<draco::PointCloud> pc = b.Finalize(s.pc_dedup != 0);
  if (!pc) {
    if (all_supported || !s.pc_dedup) return "PointCloudBuilder::Finalize fails on supported attribute types";
    count("pc_builder_refused");
    return "";
  }
  std::string e = structural(*pc, nullptr);
  if (!e.empty()) return "point cloud builder: " + e;
  const std::vector<int> o2 = order_by_uid(*pc);
  std::vector<std::string> got;
  for (uint32_t p = 0; p < pc->num_points(); ++p) got.push_back(corner_key(*pc, p, o2));
  if (!s.pc_dedup) {
    if (got != want) return "point cloud builder (no dedup): points changed";
    count("pc_builder_nodedup");
  } else {
    std::set<std::string> a(want.begin(), want.end()), bb(got.begin(), got.end());
    if (a != bb) return "point cloud builder (dedup): the set of distinct points changed";
    if (all_supported) {
      // (with an attribute type the de-duplication does not support it stops early; only preservation is asserted)
      if (got.size() != bb.size()) return "point cloud builder (dedup): duplicate points remain";
      e = dedup_post(*pc);
      if (!e.empty()) return "point cloud builder: " + e;
      count("pc_builder_dedup");
    } else {
      count("pc_builder_dedup_unsupported_type");
    }
  }
  return "";
}

static std::string run_spec(const C14Spec &s, bool *nt) {
  std::string e;
  if (s.g.is_mesh) {
    e = check_builder(s, nt);
    if (!e.empty()) return e;
    e = check_cleanup(s);
    if (!e.empty()) return e;
    bool snt = false;
    e = check_strips(s, &snt);
    if (!e.empty()) return e;
  } else {
    e = check_pc_builder(s);
    if (!e.empty()) return e;
    *nt = s.g.npoints >= 2;
  }
  return check_direct_dedup(s);
}

static C14Spec gen_spec(std::vector<std::string> *classes) {
  C14Spec s;
  GenCfg cfg;
  cfg.thorough = g_thorough;
  cfg.allow_large = false;
  cfg.mesh_pct = 75;
  cfg.quant_pct = 0;
  CaseSpec cs = gen_case(cfg, classes);
  s.g = cs.g;
  // special float bit patterns in one float attribute: -0.0 next to 0.0, NaN payloads (bit-identical and not)
  for (AttSpec &a : s.g.atts) {
    if (a.dtype == draco::DT_FLOAT32 && a.nvalues >= 2 && P(35)) {
      static const uint32_t pats[] = {0x00000000u, 0x80000000u, 0x7fc00000u, 0x7fc00001u, 0xffc00000u, 0x7f800000u};
      const int n = R(2, std::min<int>(8, static_cast<int>(a.nvalues)));
      for (int i = 0; i < n; ++i) {
        const uint32_t v = static_cast<uint32_t>(R(0, static_cast<int>(a.nvalues) - 1));
        for (int c = 0; c < a.ncomp; ++c) {
          const uint32_t b = pats[R(0, 5)];
          memcpy(a.data.data() + static_cast<size_t>(v) * a.stride() + 4 * c, &b, 4);
        }
      }
      classes->push_back("special_float_patterns");
    }
  }
  s.cleanup_mask = static_cast<uint32_t>(R(0, 7));
  s.per_face_att = (s.g.atts.size() > 1 && P(25)) ? R(0, static_cast<int>(s.g.atts.size()) - 1) : -1;
  if (s.per_face_att >= 0 && s.g.atts[s.per_face_att].type == GeometryAttribute::POSITION) s.per_face_att = -1;
  s.pc_dedup = P(60);
  return s;
}

int main(int argc, char **argv) {
  g_thorough = std::string(env("VERIF_TIER", "quick")) == "thorough";
  stats().rule =
      "geometry specs from the shared generator (soups, grids, closed surfaces, non-manifold / duplicate / mirrored / "
      "degenerate faces, seams, isolated points, 1..5 attributes of all types, -0.0 / NaN bit patterns, repeated values): "
      "TriangleSoupMeshBuilder (incl. per-face attributes), PointCloudBuilder (dedup on/off), Deduplicate* directly, "
      "MeshCleanup with each of the 8 option subsets, MeshStripifier in both modes; non-trivial = mesh finalized by the "
      "builder with supported types (dedup post-conditions and idempotence checked) or point cloud with >= 2 points";
  Harness h;
  h.run = [&](const std::string &) {
    std::vector<std::string> classes;
    C14Spec s = gen_spec(&classes);
    CaseSpec tmp;
    tmp.g = s.g;
    set_case("c14", to_tokens(s), s.g.npoints <= 100 ? describe_case(tmp) : std::string());
    bool nt = false;
    std::string e = guarded([&] { return run_spec(s, &nt); });
    for (auto &c : classes) count(c);
    if (nt) {
      nontrivial(hash_tokens(to_tokens(s)));
      if (s.g.npoints <= 24) sample(describe_case(tmp), 3);
    }
    return e;
  };
  h.replay = [&](const std::string &, const std::vector<int64_t> &t) {
    C14Spec s;
    if (!from_tokens(t, &s)) return std::string("bad replay tokens");
    bool nt = false;
    return guarded([&] { return run_spec(s, &nt); });
  };
  return harness_main(argc, argv, h);
}
