// Geometry round-trip properties driven by the shared generator (common/geom.h):
//   c01  encode/decode round trip           c09  reported encoded counts
// (further modes are added in the same TU: they share generator and oracles)
#include <chrono>

#include "common/geom.h"

using namespace vf;
using namespace vg;

static bool g_thorough = false;

static std::string status_class(const draco::Status &s) {
  std::string m = s.error_msg_string();
  if (m.size() > 60) m.resize(60);
  for (auto &c : m)
    if (c == ' ') c = '_';
  return m.empty() ? "no_message" : m;
}

static bool shares_edge(const GeomSpec &g) {
  const int pa = g.pos_att();
  std::set<std::pair<uint32_t, uint32_t>> edges;
  for (size_t f = 0; f < g.nfaces(); ++f) {
    uint32_t v[3];
    for (int k = 0; k < 3; ++k) v[k] = pa >= 0 ? g.atts[pa].value_of_point(g.faces[3 * f + k]) : g.faces[3 * f + k];
    for (int k = 0; k < 3; ++k) {
      auto e = std::minmax(v[k], v[(k + 1) % 3]);
      if (e.first == e.second) continue;
      if (!edges.insert(e).second) return true;
    }
  }
  return false;
}

struct TopoInfo {
  bool has_seam = false, non_manifold = false, degenerate = false, isolated_point = false, duplicate_points = false;
};
static TopoInfo topo_info(const GeomSpec &g) {
  TopoInfo t;
  const int pa = g.pos_att();
  if (!g.is_mesh || pa < 0) return t;
  std::map<std::pair<uint32_t, uint32_t>, int> edge_count;
  std::vector<char> used(g.npoints, 0);
  std::map<uint32_t, std::set<uint32_t>> points_of_vertex;
  for (size_t f = 0; f < g.nfaces(); ++f) {
    uint32_t v[3];
    for (int k = 0; k < 3; ++k) {
      const uint32_t p = g.faces[3 * f + k];
      used[p] = 1;
      v[k] = g.atts[pa].value_of_point(p);
      points_of_vertex[v[k]].insert(p);
    }
    if (v[0] == v[1] || v[1] == v[2] || v[0] == v[2]) {
      t.degenerate = true;
      continue;
    }
    for (int k = 0; k < 3; ++k) edge_count[std::minmax(v[k], v[(k + 1) % 3])]++;
  }
  for (auto &kv : edge_count) t.non_manifold |= kv.second > 2;
  for (auto &kv : points_of_vertex) t.has_seam |= kv.second.size() > 1;
  for (uint32_t p = 0; p < g.npoints; ++p) t.isolated_point |= !used[p];
  return t;
}

static void classify(const CaseSpec &cs, const EncodeResult &er) {
  const char *m = er.geometry_type == 1 ? (er.method == 0 ? "method_mesh_sequential" : "method_mesh_edgebreaker")
                                        : (er.method == 0 ? "method_pc_sequential" : "method_pc_kdtree");
  count(m);
  if (er.geometry_type == 1 && er.method == 1 && er.bytes.size() > 11) {
    const uint16_t flags = static_cast<uint8_t>(er.bytes[9]) | (static_cast<uint8_t>(er.bytes[10]) << 8);
    if (!(flags & 0x8000)) count("edgebreaker_traversal_" + std::to_string(static_cast<int>(static_cast<uint8_t>(er.bytes[11]))));
  }
  count(std::string("api_") + (cs.o.api ? "expert" : "encoder"));
  count("speed_" + std::to_string(cs.o.speed()));
  for (size_t ai = 0; ai < cs.g.atts.size(); ++ai) {
    const AttSpec &a = cs.g.atts[ai];
    const AttOpt &ao = cs.o.opt_for(cs.g, static_cast<int>(ai));
    if (a.dtype == draco::DT_FLOAT32 && ao.qbits > 0) {
      count(a.type == GeometryAttribute::NORMAL && !(er.geometry_type == 0 && er.method == 1) ? "att_octahedral_normals" : "att_quantized_float");
      if (ao.explicit_q) count("att_explicit_quantization_used");
    } else if (a.dtype == draco::DT_FLOAT32) {
      count("att_raw_float");
    } else if (a.dtype == draco::DT_INT64 || a.dtype == draco::DT_UINT64 || a.dtype == draco::DT_FLOAT64 || a.dtype == draco::DT_BOOL) {
      count("att_raw_other");
    } else {
      count("att_integer");
    }
    if (ao.pred != kPredUnset) count("forced_prediction_" + std::to_string(ao.pred));
    if (a.ncomp > 4) count("att_components_5_8");
  }
  {
    std::set<std::string> ev;
    for (auto &e : er.events) ev.insert("event:" + e.first + "=" + std::to_string(e.second));
    for (auto &e : ev) count(e);
  }
  if (cs.o.builtin_compression == 0) count("builtin_compression_off");
  if (cs.o.split_on_seams == 1) count("split_on_seams_on");
  if (cs.o.compress_connectivity == 1 && er.geometry_type == 1 && er.method == 0) count("sequential_compressed_connectivity");
  if (cs.g.npoints >= 40) count("points_ge_40");
  if (cs.g.npoints >= 256) count("points_ge_256");
  if (cs.g.npoints >= 65536) count("points_ge_65536");
}

// C01 (+ C09 when tracking is on). `which`: 1 = C01 oracle, 9 = C09 oracle only, 0 = both.
static std::string run_roundtrip(const CaseSpec &cs, int which, const std::vector<std::string> &gen_classes) {
  std::unique_ptr<draco::PointCloud> pc = build_geometry(cs.g);
  EncodeResult er = encode_case(cs, *pc);
  if (!er.status.ok()) {
    count("encode_error");
    count("encode_error:" + status_class(er.status));
    if (*env("VERIF_TRACE")) fprintf(stderr, "ENCODE-ERROR %s\n", er.status.error_msg_string().c_str());
    return "";
  }
  count("encode_ok");
  const uint64_t h = hash_tokens(to_tokens(cs));
  DecodeResult dr = decode_bytes(er.bytes, {}, static_cast<int>(h & 1));
  if (!dr.status.ok() && open_finding("F19") && f19_signature(er, cs)) {
    // known finding F19 (signature over the case, see known_findings.json): counted, search continues
    count("known_F19_hit_sequential_compressed_connectivity_below_3_bytes_per_face");
    return "";
  }
  if (!dr.status.ok()) return "encode reported success but decoding fails: " + dr.status.error_msg_string();
  classify(cs, er);
  for (auto &c : gen_classes) count(c);
  const TopoInfo ti = topo_info(cs.g);
  if (ti.has_seam) count("mesh_with_attribute_seam_or_split_vertex");
  if (ti.non_manifold) count("mesh_non_manifold_edge");
  if (ti.degenerate) count("mesh_with_degenerate_face");
  if (ti.isolated_point) count("mesh_with_isolated_point");
  if (which != 9) {
    const Expected e = compute_expected(cs, er.geometry_type, er.method);
    for (size_t ai = 0; ai < cs.g.atts.size(); ++ai) {
      if (e.kind[ai] == kQuantized && !e.quant[ai].valid && cs.g.atts[ai].nvalues > 0) {
        return "encode succeeded for a quantized attribute whose values are not finite (no quantization exists)";
      }
    }
    std::string err = compare_geometry(cs, e, *dr.geom, er.geometry_type, er.method);
    if (!err.empty()) return err;
  }
  if (cs.o.track && which != 1) {
    const size_t dp = dr.geom->num_points();
    const size_t df = er.geometry_type == 1 ? static_cast<const draco::Mesh *>(dr.geom.get())->num_faces() : 0;
    if (er.reported_points != dp) {
      return "encoder reported " + std::to_string(er.reported_points) + " encoded points, decoder produced " + std::to_string(dp);
    }
    if (er.reported_faces != df) {
      return "encoder reported " + std::to_string(er.reported_faces) + " encoded faces, decoder produced " + std::to_string(df);
    }
    count("counts_compared");
  }
  bool nt;
  if (which == 9) {
    nt = cs.o.track && (!cs.g.is_mesh || ti.has_seam || ti.non_manifold || ti.degenerate || ti.isolated_point);
  } else if (cs.g.is_mesh) {
    nt = cs.g.atts.size() >= 2 || shares_edge(cs.g);
  } else {
    std::set<std::string> keys;
    const Expected e = compute_expected(cs, er.geometry_type, er.method);
    const auto order = atts_by_uid(cs.g);
    for (uint32_t p = 0; p < cs.g.npoints && keys.size() < 2; ++p) keys.insert(input_point_key(cs.g, e, order, p));
    nt = keys.size() >= 2;
  }
  if (nt) {
    nontrivial(h);
    if (cs.g.npoints <= 40) sample(describe_case(cs));
  }
  return "";
}

// ------------------------------------------------------------------------------------------------
// helpers shared by C04 / C10 / C12 / C07
static const draco::PointAttribute *att_by_uid(const draco::PointCloud &pc, uint32_t uid) {
  const int id = pc.GetAttributeIdByUniqueId(uid);
  return id < 0 ? nullptr : pc.attribute(id);
}
static std::vector<int> mask_types(uint32_t mask) {
  std::vector<int> t;
  for (int i = 0; i < 5; ++i)
    if (mask & (1u << i)) t.push_back(i);
  return t;
}
static bool is_lossy(const CaseSpec &cs, int ai) {
  const AttSpec &a = cs.g.atts[ai];
  return a.dtype == draco::DT_FLOAT32 && cs.o.opt_for(cs.g, ai).qbits > 0;
}
static std::string fbits(float f) {
  uint32_t b;
  memcpy(&b, &f, 4);
  char buf[48];
  snprintf(buf, sizeof buf, "%.9g(0x%08x)", f, b);
  return buf;
}

// C10: decode with a skip set and compare with the ordinary decode of the same bytes.
static std::string compare_skip(const CaseSpec &cs, const EncodeResult &er, const draco::PointCloud &N,
                                const draco::PointCloud &S, uint32_t mask) {
  const bool kd = er.geometry_type == 0 && er.method == 1;
  if (N.num_points() != S.num_points()) return "point count differs with skip set " + std::to_string(mask);
  if (N.num_attributes() != S.num_attributes()) return "attribute count differs with skip set " + std::to_string(mask);
  if (er.geometry_type == 1) {
    const auto &mn = static_cast<const draco::Mesh &>(N);
    const auto &ms = static_cast<const draco::Mesh &>(S);
    if (mn.num_faces() != ms.num_faces()) return "face count differs with skip set";
    for (uint32_t f = 0; f < mn.num_faces(); ++f)
      for (int k = 0; k < 3; ++k)
        if (mn.face(FaceIndex(f))[k] != ms.face(FaceIndex(f))[k]) return "connectivity differs with skip set " + std::to_string(mask);
  }
  for (int i = 0; i < N.num_attributes(); ++i) {
    const draco::PointAttribute *n = N.attribute(i), *sa = S.attribute(i);
    const std::string who = "attribute #" + std::to_string(i) + " (uid " + std::to_string(n->unique_id()) + ", skip set " + std::to_string(mask) + "): ";
    if (n->attribute_type() != sa->attribute_type()) return who + "attribute type differs";
    if (n->unique_id() != sa->unique_id()) return who + "skipped decode returns unique id " + std::to_string(sa->unique_id());
    int ai = -1;
    for (size_t k = 0; k < cs.g.atts.size(); ++k)
      if (cs.g.atts[k].unique_id == n->unique_id()) ai = static_cast<int>(k);
    if (ai < 0) return who + "unknown unique id";
    const bool in_k = (mask >> n->attribute_type()) & 1;
    const bool lossy = is_lossy(cs, ai);
    uint8_t bn[256], bs[256];
    if (in_k && !lossy && draco::IsDataTypeIntegral(n->data_type()) && sa->data_type() != n->data_type()) {
      // An integer attribute of a skipped type carries no transform. The decoders hand out its int32 working copy
      // in this case (same integers, widened); the statement of C10 only fixes the values, the unique id (checked
      // above) and the absence of a transform description for it.
      count("skip_plain_integer_attribute_widened");
      if (sa->data_type() != draco::DT_INT32 || sa->num_components() != n->num_components())
        return who + "integer attribute of a skipped type came back with an unexpected descriptor";
      if (sa->GetAttributeTransformData() != nullptr) return who + "plain integer attribute came back with a transform description";
      for (uint32_t p = 0; p < N.num_points(); ++p) {
        int64_t vn[16], vs[16];
        if (!n->ConvertValue<int64_t>(n->mapped_index(PointIndex(p)), n->num_components(), vn) ||
            !sa->ConvertValue<int64_t>(sa->mapped_index(PointIndex(p)), n->num_components(), vs))
          return who + "ConvertValue failed";
        // the working copy holds the two's-complement 32-bit pattern: compare modulo 2^32
        for (int c = 0; c < n->num_components(); ++c)
          if (static_cast<uint32_t>(vn[c]) != static_cast<uint32_t>(vs[c])) return who + "integer value of point " + std::to_string(p) + " changed by the skip option";
      }
      continue;
    }
    if (!(lossy && in_k)) {
      if (n->data_type() != sa->data_type() || n->num_components() != sa->num_components() || n->byte_stride() != sa->byte_stride())
        return who + "descriptor changed although the attribute is not skipped / has no transform";
      if ((sa->GetAttributeTransformData() != nullptr) != (n->GetAttributeTransformData() != nullptr))
        return who + "transform data presence differs for an attribute that is not skipped";
      for (uint32_t p = 0; p < N.num_points(); ++p) {
        n->GetMappedValue(PointIndex(p), bn);
        sa->GetMappedValue(PointIndex(p), bs);
        if (memcmp(bn, bs, n->byte_stride()) != 0) return who + "value of point " + std::to_string(p) + " changed by the skip option";
      }
      continue;
    }
    count(kd ? "skip_kdtree_quantized" : (n->attribute_type() == GeometryAttribute::NORMAL ? "skip_octahedral" : "skip_quantized"));
    if (!draco::IsDataTypeIntegral(sa->data_type())) return who + "skipped attribute is not integral";
    const draco::AttributeTransformData *td = sa->GetAttributeTransformData();
    if (!td) return who + "skipped attribute has no transform data";
    GeometryAttribute ga;
    ga.Init(n->attribute_type(), nullptr, n->num_components(), draco::DT_FLOAT32, false, 4 * n->num_components(), 0);
    draco::PointAttribute target(ga);
    target.Reset(sa->size());
    const bool octa = n->attribute_type() == GeometryAttribute::NORMAL && !kd;
    RefQuant rq;
    draco::OctahedronToolBox tb;
    if (octa) {
      if (td->transform_type() != draco::ATTRIBUTE_OCTAHEDRON_TRANSFORM) return who + "expected an octahedron transform description";
      draco::AttributeOctahedronTransform t;
      if (!t.InitFromAttribute(*sa)) return who + "AttributeOctahedronTransform::InitFromAttribute failed";
      if (t.quantization_bits() != cs.o.opt_for(cs.g, ai).qbits) return who + "declared octahedral bits differ from the configured ones";
      if (sa->num_components() != 2) return who + "octahedral attribute must have 2 components";
      if (!t.InverseTransformAttribute(*sa, &target)) return who + "InverseTransformAttribute failed";
      tb.SetQuantizationBits(t.quantization_bits());
    } else {
      if (td->transform_type() != draco::ATTRIBUTE_QUANTIZATION_TRANSFORM) return who + "expected a quantization transform description";
      draco::AttributeQuantizationTransform t;
      if (!t.InitFromAttribute(*sa)) return who + "AttributeQuantizationTransform::InitFromAttribute failed";
      if (sa->num_components() != n->num_components()) return who + "component count differs";
      if (!t.InverseTransformAttribute(*sa, &target)) return who + "InverseTransformAttribute failed";
      rq.bits = t.quantization_bits();
      rq.mins = t.min_values();
      rq.range = t.range();
      // declared parameters = configured / reference ones
      const Expected e = compute_expected(cs, er.geometry_type, er.method);
      const RefQuant &want = e.quant[ai];
      if (want.valid) {
        if (rq.bits != want.bits) return who + "declared bits " + std::to_string(rq.bits) + " != " + std::to_string(want.bits);
        if (memcmp(&rq.range, &want.range, 4) != 0) return who + "declared range " + fbits(rq.range) + " != reference " + fbits(want.range);
        for (int c = 0; c < n->num_components(); ++c)
          if (memcmp(&rq.mins[c], &want.mins[c], 4) != 0) return who + "declared minimum " + fbits(rq.mins[c]) + " != reference " + fbits(want.mins[c]);
      }
    }
    for (uint32_t p = 0; p < N.num_points(); ++p) {
      n->GetMappedValue(PointIndex(p), bn);
      const AttributeValueIndex sv = sa->mapped_index(PointIndex(p));
      if (sv.value() >= sa->size()) return who + "skipped attribute maps a point to a value that does not exist";
      target.GetValue(sv, bs);
      if (memcmp(bn, bs, 4 * n->num_components()) != 0) {
        return who + "applying the described transform to the skipped integers gives a value that differs from the ordinary decode at point " + std::to_string(p);
      }
      // differential: the harness's own dequantizer / the tool box applied to the integers
      int32_t k[16];
      sa->GetValue(sv, k);
      float ref[16];
      if (octa) {
        tb.QuantizedOctahedralCoordsToUnitVector(k[0], k[1], ref);
        if (k[0] < 0 || k[1] < 0 || k[0] > (1 << tb.quantization_bits()) - 2 || k[1] > (1 << tb.quantization_bits()) - 2)
          return who + "octahedral coordinates outside the q-bit square";
      } else {
        for (int c = 0; c < n->num_components(); ++c) ref[c] = rq.dq(k[c], c);
      }
      if (memcmp(bn, ref, 4 * n->num_components()) != 0) return who + "reference dequantization of the skipped integers differs from the ordinary decode at point " + std::to_string(p);
    }
  }
  return "";
}

static std::string run_c10(const CaseSpec &cs, const std::vector<std::string> &gen_classes) {
  std::unique_ptr<draco::PointCloud> pc = build_geometry(cs.g);
  EncodeResult er = encode_case(cs, *pc);
  if (!er.status.ok()) {
    count("encode_error");
    return "";
  }
  DecodeResult N = decode_bytes(er.bytes);
  if (!N.status.ok()) {
    if (open_finding("F19") && f19_signature(er, cs)) return "";
    return "ordinary decode failed: " + N.status.error_msg_string();
  }
  count("encode_ok");
  classify(cs, er);
  for (auto &c : gen_classes) count(c);
  std::set<uint32_t> masks = {cs.skip_mask & 31u, 31u};
  uint32_t present = 0, lossy_types = 0;
  for (size_t ai = 0; ai < cs.g.atts.size(); ++ai) {
    present |= 1u << cs.g.atts[ai].type;
    if (is_lossy(cs, static_cast<int>(ai))) lossy_types |= 1u << cs.g.atts[ai].type;
  }
  for (int t = 0; t < 5; ++t)
    if (lossy_types & (1u << t)) masks.insert(1u << t);
  if (g_thorough) for (uint32_t m = 0; m < 32; ++m) masks.insert(m);
  bool nt = false;
  for (uint32_t m : masks) {
    DecodeResult S = decode_bytes(er.bytes, mask_types(m), static_cast<int>(m & 1));
    if (!S.status.ok()) return "decode with skip set " + std::to_string(m) + " failed: " + S.status.error_msg_string();
    std::string err = compare_skip(cs, er, *N.geom, *S.geom, m);
    if (!err.empty()) return err;
    count("skip_decodes");
    nt |= (m & lossy_types) != 0;
  }
  if (nt) {
    nontrivial(hash_tokens(to_tokens(cs)));
    if (cs.g.npoints <= 30) sample(describe_case(cs));
  }
  return "";
}

// C04: error of every decoded quantized float against the original, through the tag attribute.
static double c04_allow(double x, double mn, double R) {
  return 8.0 * std::ldexp(1.0, -24) * std::max(std::fabs(x), std::max(std::fabs(mn), R));
}
// decoded point -> original point through the tag attribute (last attribute of the spec)
static std::string tag_map(const CaseSpec &cs, const draco::PointCloud &dec, std::vector<uint32_t> *orig_of) {
  const AttSpec &tag = cs.g.atts.back();
  const draco::PointAttribute *t = att_by_uid(dec, tag.unique_id);
  if (!t || t->data_type() != draco::DT_UINT32 || t->num_components() != 1) return "tag attribute lost";
  orig_of->resize(dec.num_points());
  for (uint32_t p = 0; p < dec.num_points(); ++p) {
    uint32_t v;
    t->GetMappedValue(PointIndex(p), &v);
    if (v >= cs.g.npoints) return "tag value out of range after decode";
    (*orig_of)[p] = v;
  }
  return "";
}

static std::string check_bound(const CaseSpec &cs, const EncodeResult &er, const draco::PointCloud &dec,
                               const std::vector<uint32_t> &orig_of, bool *nontriv) {
  const Expected e = compute_expected(cs, er.geometry_type, er.method);
  for (size_t ai = 0; ai + 1 < cs.g.atts.size(); ++ai) {
    if (e.kind[ai] != kQuantized) continue;
    const AttSpec &a = cs.g.atts[ai];
    const RefQuant &rq = e.quant[ai];
    if (!rq.valid) return "encode succeeded although no quantization exists (non-finite values)";
    const draco::PointAttribute *d = att_by_uid(dec, a.unique_id);
    if (!d || d->data_type() != draco::DT_FLOAT32 || d->num_components() != a.ncomp) return "quantized attribute changed its descriptor";
    const double R = rq.range;
    const double step = R / (std::ldexp(1.0, rq.bits) - 1.0);
    count(rq.bits <= 8 ? "q_1_8" : rq.bits <= 20 ? "q_9_20" : "q_21_30");
    std::set<std::vector<float>> distinct;
    for (uint32_t p = 0; p < dec.num_points(); ++p) {
      float out[16];
      d->GetMappedValue(PointIndex(p), out);
      const uint32_t v = a.value_of_point(orig_of[p]);
      for (int c = 0; c < a.ncomp; ++c) {
        const double x = a.getf(v, c), y = out[c], mn = rq.mins[c];
        const double A = c04_allow(x, mn, R);
        if (!(std::fabs(y - x) <= step / 2 + A)) {
          return "uid " + std::to_string(a.unique_id) + " component " + std::to_string(c) + ": decoded " + fbits(out[c]) + " for original " +
                 fbits(a.getf(v, c)) + ", error " + std::to_string(std::fabs(y - x)) + " > half step " + std::to_string(step / 2) + " + allowance " + std::to_string(A) +
                 " (bits " + std::to_string(rq.bits) + ", range " + fbits(rq.range) + ")";
        }
        if (!(y >= mn - A && y <= mn + R + A)) {
          return "uid " + std::to_string(a.unique_id) + ": decoded " + fbits(out[c]) + " leaves the quantization box [" + fbits(rq.mins[c]) + ", +" + fbits(rq.range) + "]";
        }
      }
      if (distinct.size() < 2) distinct.insert(std::vector<float>(out, out + a.ncomp));
    }
    if (distinct.size() >= 2) *nontriv = true;
  }
  return "";
}

static bool has_tag(const CaseSpec &cs) {
  if (cs.g.atts.empty()) return false;
  const AttSpec &t = cs.g.atts.back();
  if (t.unique_id < 777000 || t.unique_id >= 777016 || t.dtype != draco::DT_UINT32 || t.ncomp != 1 || t.data.size() != 4 * static_cast<size_t>(cs.g.npoints)) return false;
  for (uint32_t p = 0; p < cs.g.npoints; ++p)
    if (memcmp(t.data.data() + 4 * p, &p, 4) != 0) return false;
  return true;
}
// Untagged point clouds (all-float clouds take encoder paths that a cloud with an integer tag never reaches): without
// a correspondence the bound is checked as the necessary condition "every decoded value has an original within the
// bound and every original has a decoded value within the bound" (component-wise, same allowance).
static std::string check_bound_untagged(const CaseSpec &cs, const EncodeResult &er, const draco::PointCloud &dec, bool *nontriv) {
  const Expected e = compute_expected(cs, er.geometry_type, er.method);
  for (size_t ai = 0; ai < cs.g.atts.size(); ++ai) {
    if (e.kind[ai] != kQuantized) continue;
    const AttSpec &a = cs.g.atts[ai];
    const RefQuant &rq = e.quant[ai];
    if (!rq.valid) return "encode succeeded although no quantization exists (non-finite values)";
    const draco::PointAttribute *d = att_by_uid(dec, a.unique_id);
    if (!d || d->data_type() != draco::DT_FLOAT32 || d->num_components() != a.ncomp) return "quantized attribute changed its descriptor";
    const double R = rq.range, step = R / (std::ldexp(1.0, rq.bits) - 1.0);
    std::vector<std::vector<float>> in, out;
    for (uint32_t p = 0; p < cs.g.npoints; ++p) {
      std::vector<float> v(a.ncomp);
      for (int c = 0; c < a.ncomp; ++c) v[c] = a.getf(a.value_of_point(p), c);
      in.push_back(v);
    }
    for (uint32_t p = 0; p < dec.num_points(); ++p) {
      float o[16];
      d->GetMappedValue(PointIndex(p), o);
      out.push_back(std::vector<float>(o, o + a.ncomp));
    }
    auto near = [&](const std::vector<float> &x, const std::vector<float> &y) {
      for (int c = 0; c < a.ncomp; ++c) {
        const double A = c04_allow(x[c], rq.mins[c], R);
        if (!(std::fabs(static_cast<double>(y[c]) - x[c]) <= step / 2 + A)) return false;
      }
      return true;
    };
    for (auto &y : out) {
      bool ok = false;
      for (auto &x : in) if (near(x, y)) { ok = true; break; }
      if (!ok) return "untagged cloud, uid " + std::to_string(a.unique_id) + ": decoded value " + fbits(y[0]) + ".. has no original within half a step (bits " + std::to_string(rq.bits) + ", range " + fbits(rq.range) + ")";
    }
    for (auto &x : in) {
      bool ok = false;
      for (auto &y : out) if (near(x, y)) { ok = true; break; }
      if (!ok) return "untagged cloud, uid " + std::to_string(a.unique_id) + ": original value " + fbits(x[0]) + ".. has no decoded value within half a step (bits " + std::to_string(rq.bits) + ", range " + fbits(rq.range) + ")";
    }
    count(rq.bits <= 8 ? "untagged_q_1_8" : rq.bits <= 20 ? "untagged_q_9_20" : "untagged_q_21_30");
    if (out.size() >= 2 && out.front() != out.back()) *nontriv = true;
  }
  return "";
}

static std::string run_c04(const CaseSpec &cs0, const std::vector<std::string> &gen_classes) {
  CaseSpec cs = cs0;  // the tag attribute is part of the stored spec (added by the generator wrapper)
  std::unique_ptr<draco::PointCloud> pc = build_geometry(cs.g);
  EncodeResult er = encode_case(cs, *pc);
  if (!er.status.ok()) {
    count("encode_error");
    count("encode_error:" + status_class(er.status));
    return "";
  }
  DecodeResult N = decode_bytes(er.bytes);
  if (!N.status.ok()) {
    if (open_finding("F19") && f19_signature(er, cs)) return "";
    return "decode failed: " + N.status.error_msg_string();
  }
  count("encode_ok");
  classify(cs, er);
  for (auto &c : gen_classes) count(c);
  if (!has_tag(cs)) {
    bool ntu = false;
    std::string eu = check_bound_untagged(cs, er, *N.geom, &ntu);
    if (!eu.empty()) return eu;
    count(er.method == 1 && er.geometry_type == 0 ? "untagged_cloud_kdtree" : "untagged_cloud_sequential");
    if (ntu) nontrivial(hash_tokens(to_tokens(cs)));
    return "";
  }
  std::vector<uint32_t> orig_of;
  std::string err = tag_map(cs, *N.geom, &orig_of);
  if (!err.empty()) return err;
  bool nt = false;
  err = check_bound(cs, er, *N.geom, orig_of, &nt);
  if (!err.empty()) return err;
  // declared parameters (through the skip-transform decode) equal the reference / configured ones
  DecodeResult S = decode_bytes(er.bytes, {0, 1, 2, 3, 4});
  if (!S.status.ok()) return "skip-transform decode failed: " + S.status.error_msg_string();
  err = compare_skip(cs, er, *N.geom, *S.geom, 31);
  if (!err.empty()) return err;
  if (nt) {
    nontrivial(hash_tokens(to_tokens(cs)));
    if (cs.g.npoints <= 24) sample(describe_case(cs));
  }
  return "";
}

// C04 at transform level: AttributeQuantizationTransform alone (no entropy coder), every q in 1..30, automatic and
// explicit parameters.
struct QuantSpec {
  int32_t q = 8;
  int32_t ncomp = 3;
  uint8_t explicit_box = 0;
  std::vector<float> origin;
  float range = 1.f;
  std::vector<float> v;
  template <class A>
  void io(A &a) {
    a(q); a(ncomp); a(explicit_box); a(origin); a(range); a(v);
  }
};
static std::string run_c04_transform(const QuantSpec &qs) {
  const uint32_t n = static_cast<uint32_t>(qs.v.size() / qs.ncomp);
  if (n == 0) return "";
  GeometryAttribute ga;
  ga.Init(GeometryAttribute::GENERIC, nullptr, static_cast<uint8_t>(qs.ncomp), draco::DT_FLOAT32, false, 4 * qs.ncomp, 0);
  draco::PointAttribute att(ga);
  att.Reset(n);
  att.SetIdentityMapping();
  for (uint32_t i = 0; i < n; ++i) att.SetAttributeValue(AttributeValueIndex(i), &qs.v[static_cast<size_t>(i) * qs.ncomp]);
  draco::AttributeQuantizationTransform t;
  AttSpec a;
  a.ncomp = qs.ncomp;
  a.nvalues = n;
  a.data.assign(reinterpret_cast<const uint8_t *>(qs.v.data()), reinterpret_cast<const uint8_t *>(qs.v.data()) + qs.v.size() * 4);
  RefQuant want;
  if (qs.explicit_box) {
    if (!t.SetParameters(qs.q, qs.origin.data(), qs.ncomp, qs.range)) return "SetParameters refused valid parameters";
    want.bits = qs.q;
    want.mins = qs.origin;
    want.range = qs.range;
    want.valid = true;
  } else {
    if (!t.ComputeParameters(att, qs.q)) return "ComputeParameters failed on finite values";
    want = ref_auto_params(a, qs.q);
    if (!want.valid) return "reference parameters invalid";
    if (memcmp(&want.range, &(const float &)t.range(), 4) != 0) return "computed range " + fbits(t.range()) + " != reference " + fbits(want.range);
    for (int c = 0; c < qs.ncomp; ++c) {
      const float m = t.min_value(c);
      if (memcmp(&want.mins[c], &m, 4) != 0) return "computed minimum differs from the reference";
    }
  }
  std::unique_ptr<draco::PointAttribute> port = t.InitTransformedAttribute(att, n);
  if (!t.TransformAttribute(att, {}, port.get())) return "TransformAttribute failed";
  draco::PointAttribute target(ga);
  target.Reset(n);
  if (!t.InverseTransformAttribute(*port, &target)) return "InverseTransformAttribute failed";
  const double R = want.range;
  const double step = R / (std::ldexp(1.0, qs.q) - 1.0);
  for (uint32_t i = 0; i < n; ++i) {
    float out[8];
    target.GetValue(AttributeValueIndex(i), out);
    int32_t k[8];
    port->GetValue(AttributeValueIndex(i), k);
    for (int c = 0; c < qs.ncomp; ++c) {
      const double x = qs.v[static_cast<size_t>(i) * qs.ncomp + c], y = out[c], mn = want.mins[c];
      const double A = c04_allow(x, mn, R);
      if (!(std::fabs(y - x) <= step / 2 + A)) {
        return "transform level: decoded " + fbits(out[c]) + " for original " + fbits(static_cast<float>(x)) + ", error " + std::to_string(std::fabs(y - x)) + " > half step " +
               std::to_string(step / 2) + " + allowance " + std::to_string(A) + " (bits " + std::to_string(qs.q) + ", range " + fbits(want.range) + ")";
      }
      if (!(y >= mn - A && y <= mn + R + A)) return "transform level: decoded value leaves the quantization box";
      const int32_t kr = want.q(static_cast<float>(x), c);
      if (kr != k[c]) return "transform level: quantized integer " + std::to_string(k[c]) + " != reference " + std::to_string(kr);
    }
  }
  return "";
}
static QuantSpec gen_quant_spec() {
  QuantSpec qs;
  qs.q = P(40) ? R(25, 30) : R(1, 24);
  qs.ncomp = W({20, 20, 40, 20}) + 1;
  const int n = R(1, 40);
  const double offs[] = {0, 0, 1e3, 1e7, -5e4, 0.5};
  const double offset = offs[R(0, 5)];
  const double scale = std::pow(10.0, R(-6, 9)) * (1 + R(0, 8));
  const int constc = P(25) ? R(0, qs.ncomp - 1) : -1;
  for (int i = 0; i < n; ++i)
    for (int c = 0; c < qs.ncomp; ++c) {
      double u = P(30) ? R(0, 16) / 16.0 : R(0, 1 << 20) / static_cast<double>(1 << 20);
      if (P(10)) u = (R(0, 64) + 0.5) / 64.0;  // near ties of coarse grids
      qs.v.push_back(static_cast<float>(c == constc ? offset : offset + scale * u));
    }
  if (P(30)) {
    AttSpec a;
    a.ncomp = qs.ncomp;
    a.nvalues = static_cast<uint32_t>(n);
    a.dtype = draco::DT_FLOAT32;
    a.data.assign(reinterpret_cast<const uint8_t *>(qs.v.data()), reinterpret_cast<const uint8_t *>(qs.v.data()) + qs.v.size() * 4);
    AttOpt o;
    if (gen_explicit_box(a, &o)) {
      qs.explicit_box = 1;
      qs.origin = o.origin;
      qs.range = o.range;
    }
  }
  return qs;
}

// C12: geometry B shares coordinates with A (same explicit box); decoded values of shared coordinates must be
// bit-identical and lie on the grid.
struct C12Spec {
  CaseSpec a, b;
  int32_t att_a = 0;                    // the explicitly quantized attribute of A (B's is attribute 0)
  std::vector<uint32_t> b_from_a;       // per value entry of B: index of A's value entry, or 0xffffffff = private
  template <class Ar>
  void io(Ar &ar) {
    ar(a); ar(b); ar(att_a); ar(b_from_a);
  }
};

static std::string decode_values_by_entry(const CaseSpec &cs, int ai, std::map<uint32_t, std::vector<float>> *out, EncodeResult *er_out) {
  std::unique_ptr<draco::PointCloud> pc = build_geometry(cs.g);
  EncodeResult er = encode_case(cs, *pc);
  *er_out = er;
  if (!er.status.ok()) return "ENCODE-ERROR";
  DecodeResult N = decode_bytes(er.bytes);
  if (!N.status.ok()) {
    if (open_finding("F19") && f19_signature(er, cs)) return "ENCODE-ERROR";
    return "decode failed: " + N.status.error_msg_string();
  }
  std::vector<uint32_t> orig_of;
  std::string err = tag_map(cs, *N.geom, &orig_of);
  if (!err.empty()) return err;
  const AttSpec &a = cs.g.atts[ai];
  const draco::PointAttribute *d = att_by_uid(*N.geom, a.unique_id);
  if (!d || d->data_type() != draco::DT_FLOAT32) return "quantized attribute missing";
  for (uint32_t p = 0; p < N.geom->num_points(); ++p) {
    float v[16];
    d->GetMappedValue(PointIndex(p), v);
    const uint32_t entry = a.value_of_point(orig_of[p]);
    std::vector<float> vv(v, v + a.ncomp);
    auto it = out->find(entry);
    if (it == out->end()) {
      out->emplace(entry, vv);
    } else if (memcmp(it->second.data(), vv.data(), 4 * a.ncomp) != 0) {
      return "two points with the same value entry decode differently";
    }
  }
  bool nt = false;
  err = check_bound(cs, er, *N.geom, orig_of, &nt);
  return err;
}

static std::string run_c12(const C12Spec &sp) {
  std::map<uint32_t, std::vector<float>> da, dbv;
  EncodeResult ea, eb;
  std::string err = decode_values_by_entry(sp.a, sp.att_a, &da, &ea);
  if (err == "ENCODE-ERROR") { count("encode_error"); return ""; }
  if (!err.empty()) return "A: " + err;
  err = decode_values_by_entry(sp.b, 0, &dbv, &eb);
  if (err == "ENCODE-ERROR") { count("encode_error"); return ""; }
  if (!err.empty()) return "B: " + err;
  count("encode_ok");
  const AttSpec &aa = sp.a.g.atts[sp.att_a];
  const AttOpt &ao = sp.a.o.opt_for(sp.a.g, sp.att_a);
  RefQuant rq;
  rq.bits = ao.qbits;
  rq.mins = ao.origin;
  rq.mins.resize(aa.ncomp, 0.f);
  rq.range = ao.range;
  int shared = 0;
  for (uint32_t vb = 0; vb < sp.b_from_a.size(); ++vb) {
    const uint32_t va = sp.b_from_a[vb];
    if (va == 0xffffffffu) continue;
    auto ia = da.find(va);
    auto ib = dbv.find(vb);
    if (ia == da.end() || ib == dbv.end()) continue;  // entry not used by a decoded point on one side
    ++shared;
    if (memcmp(ia->second.data(), ib->second.data(), 4 * aa.ncomp) != 0) {
      return "shared coordinate decodes to " + fbits(ia->second[0]) + ".. in A but " + fbits(ib->second[0]) + ".. in B (same origin/range/bits)";
    }
    for (int c = 0; c < aa.ncomp; ++c) {
      // grid membership: the value is the dequantization of an integer index in [0, 2^bits - 1]
      const int32_t k = rq.q(aa.getf(va, c), c);
      bool on_grid = false;
      for (int dk = -1; dk <= 1 && !on_grid; ++dk) {
        const int64_t kk = static_cast<int64_t>(k) + dk;
        if (kk < 0 || kk > rq.maxq() + 1) continue;  // float32 product may round up to 2^bits at the box edge (DESIGN C04)
        const float g = rq.dq(static_cast<int32_t>(kk), c);
        on_grid = memcmp(&g, &ia->second[c], 4) == 0;
      }
      if (!on_grid) return "decoded value " + fbits(ia->second[c]) + " is not on the grid origin + k*range/(2^bits-1)";
    }
  }
  const char *ma = ea.geometry_type == 1 ? (ea.method ? "eb" : "mseq") : (ea.method ? "kd" : "pseq");
  const char *mb = eb.geometry_type == 1 ? (eb.method ? "eb" : "mseq") : (eb.method ? "kd" : "pseq");
  count(std::string("pair_") + ma + "_" + mb);
  count(rq.bits <= 8 ? "q_1_8" : rq.bits <= 20 ? "q_9_20" : "q_21_30");
  if (shared >= 2) {
    nontrivial(hash_tokens(to_tokens(sp)));
    if (sp.a.g.npoints <= 16) sample("{\"A\":" + describe_case(sp.a) + ",\"B\":" + describe_case(sp.b) + ",\"shared_coordinates\":" + std::to_string(shared) + "}");
    count("pairs_with_2plus_shared");
  }
  return "";
}

static bool gen_c12(C12Spec *sp, std::vector<std::string> *classes) {
  GenCfg cfg;
  cfg.thorough = g_thorough;
  cfg.lossy_focus = true;
  cfg.allow_large = false;
  cfg.allow_wide = false;  // (the pair shares one explicit box; geometry B gets its own options afterwards)
  cfg.max_extra_atts = 2;
  sp->a = gen_case(cfg, classes);
  CaseSpec &A = sp->a;
  // pick a float attribute and make its quantization explicit
  int fa = -1;
  for (size_t ai = 0; ai < A.g.atts.size(); ++ai) {
    const AttSpec &a = A.g.atts[ai];
    if (a.dtype == draco::DT_FLOAT32 && A.o.opt_for(A.g, static_cast<int>(ai)).qbits > 0 && a.nvalues > 0 &&
        !(a.type == GeometryAttribute::NORMAL)) fa = static_cast<int>(ai);
  }
  if (fa < 0) return false;
  if (A.o.api == 0) {
    int same = 0;
    for (auto &a : A.g.atts) same += a.type == A.g.atts[fa].type;
    if (same > 1) A.o.api = 1;  // per-type options cannot hold one box per attribute
    if (A.o.api == 1) {
      // keep the option values: copy the per-type options to the per-attribute table
      for (size_t ai = 0; ai < A.g.atts.size(); ++ai) A.o.per_att[ai] = A.o.per_type[A.g.atts[ai].type];
    }
  }
  {
  AttOpt &ao = A.o.api == 1 ? A.o.per_att[fa] : A.o.per_type[A.g.atts[fa].type];
  bool finite = true;
  for (uint32_t v = 0; v < A.g.atts[fa].nvalues; ++v)
    for (int c = 0; c < A.g.atts[fa].ncomp; ++c) finite &= std::isfinite(A.g.atts[fa].getf(v, c));
  if (!finite) return false;
  if (!ao.explicit_q && !gen_explicit_box(A.g.atts[fa], &ao)) return false;
  }
  sp->att_a = fa;
  add_tag_attribute(&A);
  const AttOpt ao_copy = A.o.opt_for(A.g, fa);  // (add_tag_attribute reallocates the option tables)
  const AttOpt &ao = ao_copy;
  // geometry B: subset of A's values + private values inside the box
  const AttSpec &aa = A.g.atts[fa];
  CaseSpec &B = sp->b;
  AttSpec pb;
  pb.type = aa.type;
  pb.dtype = draco::DT_FLOAT32;
  pb.ncomp = aa.ncomp;
  pb.unique_id = 3;
  const int nshared = R(1, std::min<int>(static_cast<int>(aa.nvalues), 12));
  const int npriv = R(0, 6);
  sp->b_from_a.clear();
  for (int i = 0; i < nshared; ++i) {
    const uint32_t va = static_cast<uint32_t>(R(0, static_cast<int>(aa.nvalues) - 1));
    sp->b_from_a.push_back(va);
    pb.data.insert(pb.data.end(), aa.value(va), aa.value(va) + aa.stride());
  }
  for (int i = 0; i < npriv; ++i) {
    sp->b_from_a.push_back(0xffffffffu);
    for (int c = 0; c < aa.ncomp; ++c) {
      const float x = ao.origin[c] + ao.range * (static_cast<float>(R(0, 1024)) / 1024.f);
      const float xx = std::min(std::max(x, ao.origin[c]), ao.origin[c] + ao.range);
      put_scalar(pb.data, draco::DT_FLOAT32, 0, (xx - ao.origin[c] <= ao.range) ? xx : ao.origin[c]);
    }
  }
  pb.nvalues = static_cast<uint32_t>(sp->b_from_a.size());
  B.g.is_mesh = P(55);
  if (B.g.is_mesh) {
    const int nf = R(1, 14);
    std::map<uint32_t, uint32_t> dummy;
    B.g.npoints = pb.nvalues;
    for (int f = 0; f < nf * 3; ++f) B.g.faces.push_back(static_cast<uint32_t>(R(0, static_cast<int>(pb.nvalues) - 1)));
    pb.identity = 1;
  } else {
    B.g.npoints = pb.nvalues + static_cast<uint32_t>(R(0, 4));
    pb.identity = 0;
    pb.map.resize(B.g.npoints);
    for (uint32_t p = 0; p < B.g.npoints; ++p) pb.map[p] = p < pb.nvalues ? p : static_cast<uint32_t>(R(0, static_cast<int>(pb.nvalues) - 1));
  }
  // B's quantized attribute must be usable as geometry: POSITION type is required for meshes
  if (pb.type != GeometryAttribute::POSITION) {
    AttSpec pos;
    pos.type = GeometryAttribute::POSITION;
    pos.dtype = draco::DT_INT16;
    pos.ncomp = 3;
    pos.unique_id = 9;
    pos.identity = 1;
    pos.nvalues = B.g.npoints;
    for (uint32_t p = 0; p < B.g.npoints; ++p)
      for (int c = 0; c < 3; ++c) put_scalar(pos.data, draco::DT_INT16, R(-50, 50), 0);
    B.g.atts.push_back(pb);
    B.g.atts.push_back(pos);
  } else {
    B.g.atts.push_back(pb);
  }
  B.o.api = P(50);
  B.o.method = W({40, 25, 35}) - 1;
  B.o.eb_method = W({64, 18, 18}) == 0 ? -1 : (P(50) ? 0 : 2);
  if (P(70)) B.o.enc_speed = B.o.dec_speed = R(0, 10);
  B.o.per_type.resize(5);
  B.o.per_att.resize(B.g.atts.size());
  AttOpt bo = ao;
  bo.pred = kPredUnset;
  if (P(30)) bo.pred = pick({-2, 0, 1, 4});
  B.o.per_att[0] = bo;
  B.o.per_type[pb.type] = bo;
  add_tag_attribute(&B);
  return true;
}

// Writes small valid streams, a few per distinct encoder code-path class, to $VERIF_CORPUS_OUT (fuzz / enumeration
// seeds; the frozen corpus of C05 was produced once with the same mode).
static std::string run_gencorpus(const CaseSpec &cs) {
  static std::map<std::string, int> per_class;
  static const int per_class_limit = atoi(env("VERIF_CORPUS_PER_CLASS", "2"));
  static const size_t max_bytes = static_cast<size_t>(atoi(env("VERIF_CORPUS_MAX_BYTES", "1500")));
  if (getenv("VERIF_CORPUS_ONLY_WIDE")) {
    // (used once to append the classes that exist since the cost caps were lifted to the frozen corpus of C05)
    bool wide = false;
    for (size_t ai = 0; ai < cs.g.atts.size() && !wide; ++ai) {
      const AttSpec &a = cs.g.atts[ai];
      if (a.dtype == draco::DT_FLOAT32 && is_lossy(cs, static_cast<int>(ai)) && cs.o.opt_for(cs.g, static_cast<int>(ai)).qbits > 24) wide = true;
      if (a.dtype == draco::DT_INT32 || a.dtype == draco::DT_UINT32) {
        for (size_t k = 0; k + 4 <= a.data.size() && !wide; k += 4) {
          int32_t v;
          memcpy(&v, a.data.data() + k, 4);
          if (a.dtype == draco::DT_UINT32 ? static_cast<uint32_t>(v) > (1u << 24) : (v > (1 << 24) || v < -(1 << 24))) wide = true;
        }
      }
    }
    if (!wide) return "";
  }
  std::unique_ptr<draco::PointCloud> pc = build_geometry(cs.g);
  EncodeResult er = encode_case(cs, *pc);
  if (!er.status.ok() || er.bytes.size() > max_bytes) return "";
  DecodeResult dr = decode_bytes(er.bytes);
  if (!dr.status.ok()) return "";
  std::string key = std::to_string(er.geometry_type) + "/" + std::to_string(er.method) + "/";
  {
    std::set<std::string> u;
    for (auto &e : er.events)
      if (e.first != "sequential_attribute_data_type" && e.first != "raw_symbol_bit_length") u.insert(e.first + "=" + std::to_string(e.second));
    for (auto &x : u) key += x + ";";
    std::set<std::string> kinds;
    for (size_t ai = 0; ai < cs.g.atts.size(); ++ai) {
      const AttSpec &a = cs.g.atts[ai];
      const bool q = is_lossy(cs, static_cast<int>(ai));
      kinds.insert(q ? (a.type == GeometryAttribute::NORMAL ? "octa" : "quant") : (a.dtype == draco::DT_FLOAT32 || a.dtype > draco::DT_UINT32 ? "raw" : "int"));
    }
    for (auto &x : kinds) key += x + ",";
    const uint16_t flags = er.bytes.size() > 10 ? static_cast<uint8_t>(er.bytes[10]) : 0;
    key += (flags & 0x80) ? "meta" : "";
    // structure of the attribute connectivity (which attribute decoders exist and how they relate to the position
    // connectivity decides which decoder branches a corruption can reach): number of attributes, how many of them
    // are seam-free / seamed relative to the positions, and whether there are >= 2 points per position entry
    const int pa = cs.g.pos_att();
    if (cs.g.is_mesh && pa >= 0 && cs.g.npoints > 0) {
      int seamfree = 0, seamed = 0;
      std::set<uint32_t> pos_used;
      for (uint32_t p = 0; p < cs.g.npoints; ++p) pos_used.insert(cs.g.atts[pa].value_of_point(p));
      for (size_t ai = 0; ai < cs.g.atts.size(); ++ai) {
        if (static_cast<int>(ai) == pa) continue;
        std::map<uint32_t, uint32_t> m;
        bool seam = false;
        for (uint32_t p = 0; p < cs.g.npoints && !seam; ++p) {
          auto it = m.emplace(cs.g.atts[pa].value_of_point(p), cs.g.atts[ai].value_of_point(p));
          seam = it.first->second != cs.g.atts[ai].value_of_point(p);
        }
        (seam ? seamed : seamfree)++;
      }
      key += ";atts=" + std::to_string(std::min<size_t>(cs.g.atts.size(), 4)) + ";seamfree=" + std::to_string(std::min(seamfree, 2)) +
             ";seamed=" + std::to_string(std::min(seamed, 2)) + (cs.g.npoints >= 2 * pos_used.size() ? ";points>=2x" : "");
    }
  }
  if (per_class[key]++ >= per_class_limit) return "";
  char name[512];
  // (the name starts with a hash of the class key so that the driver can pick across classes)
  snprintf(name, sizeof name, "%s/s%08x_%016llx.drc", env("VERIF_CORPUS_OUT", "/tmp"),
           static_cast<unsigned>(std::hash<std::string>()(key) & 0xffffffffu),
           (unsigned long long)hash_tokens(to_tokens(cs)));
  // Legacy layout of the kd-tree attribute data (bitstreams 2.0 .. 2.2): the current encoder cannot write it and testdata
  // has no such stream, but the decoder still carries the code. A kd-tree point cloud whose attributes are all unsigned
  // integers differs from the 2.2 layout only in the attribute payload (2.3: level, tree; 2.2: method 1, level, point
  // count, tree), so such a stream is converted and - if the decoder accepts it with the same result - written as an
  // additional seed.
  if (er.geometry_type == 0 && er.method == 1 && er.bytes.size() > 20 && !(static_cast<uint8_t>(er.bytes[10]) & 0x80)) {
    bool all_unsigned = !cs.g.atts.empty();
    for (auto &a : cs.g.atts) all_unsigned &= a.dtype == draco::DT_UINT8 || a.dtype == draco::DT_UINT16 || a.dtype == draco::DT_UINT32;
    size_t off = 15;  // header (11) + number of points (4)
    if (all_unsigned && static_cast<uint8_t>(er.bytes[off]) == 1) {
      ++off;
      auto skip_varint = [&]() {
        while (off < er.bytes.size() && (static_cast<uint8_t>(er.bytes[off]) & 0x80)) ++off;
        ++off;
      };
      const size_t natt_off = off;
      skip_varint();
      if (off - natt_off == 1 && static_cast<size_t>(static_cast<uint8_t>(er.bytes[natt_off])) == cs.g.atts.size()) {
        for (size_t i = 0; i < cs.g.atts.size(); ++i) {
          off += 4;
          skip_varint();
        }
        if (off + 1 < er.bytes.size()) {
          std::vector<char> lb(er.bytes.begin(), er.bytes.begin() + off);
          lb[5] = 2;
          lb[6] = 2;
          lb.push_back(1);               // kKdTreeIntegerEncoding
          lb.push_back(er.bytes[off]);   // compression level
          const uint32_t np = cs.g.npoints;
          for (int k = 0; k < 4; ++k) lb.push_back(static_cast<char>((np >> (8 * k)) & 0xff));
          lb.insert(lb.end(), er.bytes.begin() + off + 1, er.bytes.end());
          DecodeResult lr = decode_bytes(lb);
          if (lr.status.ok() && lr.geom && dr.geom && ordered_digest(*lr.geom, nullptr) == ordered_digest(*dr.geom, nullptr)) {
            char lname[512];
            snprintf(lname, sizeof lname, "%s/l%08x_%016llx.drc", env("VERIF_CORPUS_OUT", "/tmp"),
                     static_cast<unsigned>(std::hash<std::string>()(key + ";legacy22") & 0xffffffffu), (unsigned long long)hash_tokens(to_tokens(cs)));
            if (FILE *lf = fopen(lname, "wb")) {
              fwrite(lb.data(), 1, lb.size(), lf);
              fclose(lf);
              count("corpus_streams_written_in_legacy_2.2_kd_tree_layout");
            }
          } else {
            count("legacy_2.2_conversion_not_accepted");
          }
        }
      }
    }
  }
  FILE *f = fopen(name, "wb");
  if (f) {
    fwrite(er.bytes.data(), 1, er.bytes.size(), f);
    fclose(f);
    count("corpus_streams_written");
    nontrivial(hash_tokens(to_tokens(cs)));
  }
  return "";
}

// ------------------------------------------------------------------------------------------------
// C07: quantized normals.
static bool normal_degenerate(const float *v) {
  // the encoder's own definition of "no direction" (FloatVectorToQuantizedOctahedralCoords): abs-sum <= 1e-6
  const double s = std::fabs(static_cast<double>(v[0])) + std::fabs(static_cast<double>(v[1])) + std::fabs(static_cast<double>(v[2]));
  return !(s > 1e-6);
}
static std::string check_normal(const float *in, const float *out, int q, const int32_t *st) {
  for (int c = 0; c < 3; ++c)
    if (!std::isfinite(out[c])) return "decoded normal is not finite";
  const double len = std::sqrt(static_cast<double>(out[0]) * out[0] + static_cast<double>(out[1]) * out[1] + static_cast<double>(out[2]) * out[2]);
  const int32_t maxv = (1 << q) - 2;
  if (st && (st[0] < 0 || st[1] < 0 || st[0] > maxv || st[1] > maxv)) return "octahedral coordinates (" + std::to_string(st[0]) + "," + std::to_string(st[1]) + ") outside the " + std::to_string(q) + "-bit square";
  if (normal_degenerate(in)) {
    if (!(std::fabs(len - 1) <= 1e-6 || len == 0)) return "degenerate input normal decodes to a vector that is neither unit nor zero";
    return "";
  }
  if (std::fabs(len - 1) > 1e-6) return "decoded normal has length " + std::to_string(len);
  const double il = std::sqrt(static_cast<double>(in[0]) * in[0] + static_cast<double>(in[1]) * in[1] + static_cast<double>(in[2]) * in[2]);
  double dot = (static_cast<double>(in[0]) * out[0] + static_cast<double>(in[1]) * out[1] + static_cast<double>(in[2]) * out[2]) / (il * len);
  // angle through the cross product for small angles (acos loses precision near 1)
  const double cx = static_cast<double>(in[1]) * out[2] - static_cast<double>(in[2]) * out[1];
  const double cy = static_cast<double>(in[2]) * out[0] - static_cast<double>(in[0]) * out[2];
  const double cz = static_cast<double>(in[0]) * out[1] - static_cast<double>(in[1]) * out[0];
  const double cross = std::sqrt(cx * cx + cy * cy + cz * cz) / (il * len);
  const double angle = std::atan2(cross, dot);
  const double bound = 3.0 * (2.0 / (std::ldexp(1.0, q) - 2.0)) + 2e-6;
  if (!(angle <= bound)) {
    return "normal (" + std::to_string(in[0]) + "," + std::to_string(in[1]) + "," + std::to_string(in[2]) + ") decodes with an angle error of " + std::to_string(angle) +
           " rad > bound " + std::to_string(bound) + " at " + std::to_string(q) + " bits";
  }
  return "";
}

static void gen_normal(float *v, std::string *cls, SplitMix *bulk) {
  auto ri = [&](int lo, int hi) { return bulk ? bulk->range(lo, hi) : R(lo, hi); };
  auto u = [&]() { return ri(-(1 << 20), 1 << 20) / static_cast<double>(1 << 20); };
  const int c = [&] { int r = ri(0, 99); return r < 30 ? 0 : r < 48 ? 1 : r < 62 ? 2 : r < 76 ? 3 : r < 92 ? 4 : 5; }();
  double x[3] = {u(), u(), u()};
  const double eps = std::pow(10.0, -ri(2, 7));
  switch (c) {
    case 0: *cls = "normal_uniform"; break;
    case 1: {  // near an axis
      const int a = ri(0, 2);
      const double sgn = ri(0, 1) ? 1 : -1;
      for (int k = 0; k < 3; ++k) x[k] = (k == a ? sgn : 0) + eps * u();
      *cls = "normal_near_axis";
      break;
    }
    case 2: {  // near an octahedron edge (two equal magnitudes, third ~ 0) or a face centre
      if (ri(0, 1)) {
        const int a = ri(0, 2);
        for (int k = 0; k < 3; ++k) x[k] = (k == a ? 0 : (ri(0, 1) ? 1 : -1)) + eps * u();
      } else {
        for (int k = 0; k < 3; ++k) x[k] = (ri(0, 1) ? 1 : -1) + eps * u();
      }
      *cls = "normal_near_edge_or_face_centre";
      break;
    }
    case 3: {  // near the equator x = 0 / the diamond's edge in (s,t) space where the hemisphere changes
      x[0] = eps * u() * (ri(0, 3) == 0 ? 0 : 1);
      *cls = "normal_near_hemisphere_boundary";
      break;
    }
    case 4: {
      // tiny and huge lengths, up to components at the largest finite float (the abs-sum then exceeds FLT_MAX)
      const int e = ri(-5, 40);
      const double sc = e > 38 ? 3.4028234e38 : std::pow(10.0, e);
      for (int k = 0; k < 3; ++k) x[k] *= sc;
      *cls = e > 37 ? "normal_length_near_float_max" : "normal_scaled_length";
      break;
    }
    default: {
      const int d = ri(0, 3);
      const double sc = d == 0 ? 0 : d == 1 ? 1e-40 : d == 2 ? 3e-7 : 1e-10;
      for (int k = 0; k < 3; ++k) x[k] *= sc;
      *cls = "normal_degenerate_class";
    }
  }
  for (int k = 0; k < 3; ++k) {
    v[k] = static_cast<float>(x[k]);
    if (!std::isfinite(v[k])) v[k] = x[k] < 0 ? -3.4028234e38f : 3.4028234e38f;
  }
}

// transform level: AttributeOctahedronTransform alone, every q in 2..30
struct NormSpec {
  int32_t q = 8;
  std::vector<float> v;  // triples
  template <class A>
  void io(A &a) {
    a(q); a(v);
  }
};
static std::string run_c07_transform(const NormSpec &ns) {
  const uint32_t n = static_cast<uint32_t>(ns.v.size() / 3);
  if (n == 0) return "";
  GeometryAttribute ga;
  ga.Init(GeometryAttribute::NORMAL, nullptr, 3, draco::DT_FLOAT32, false, 12, 0);
  draco::PointAttribute att(ga);
  att.Reset(n);
  att.SetIdentityMapping();
  for (uint32_t i = 0; i < n; ++i) att.SetAttributeValue(AttributeValueIndex(i), &ns.v[3 * i]);
  draco::AttributeOctahedronTransform t;
  t.SetParameters(ns.q);
  std::unique_ptr<draco::PointAttribute> port = t.InitTransformedAttribute(att, n);
  if (!t.TransformAttribute(att, {}, port.get())) return "TransformAttribute failed";
  draco::PointAttribute target(ga);
  target.Reset(n);
  if (!t.InverseTransformAttribute(*port, &target)) return "InverseTransformAttribute failed";
  draco::OctahedronToolBox tb;
  tb.SetQuantizationBits(ns.q);
  std::map<std::array<uint32_t, 3>, std::array<uint32_t, 3>> seen;
  for (uint32_t i = 0; i < n; ++i) {
    int32_t st[2];
    port->GetValue(AttributeValueIndex(i), st);
    float out[3];
    target.GetValue(AttributeValueIndex(i), out);
    std::string e = check_normal(&ns.v[3 * i], out, ns.q, st);
    if (!e.empty()) return e;
    int32_t cs, ct;
    tb.CanonicalizeOctahedralCoords(st[0], st[1], &cs, &ct);
    if (cs != st[0] || ct != st[1]) return "encoder emitted non-canonical octahedral coordinates";
    std::array<uint32_t, 3> ik, ok;
    memcpy(ik.data(), &ns.v[3 * i], 12);
    memcpy(ok.data(), out, 12);
    auto it = seen.find(ik);
    if (it == seen.end()) seen[ik] = ok;
    else if (it->second != ok) return "equal input normals decode to different vectors";
  }
  return "";
}

static bool make_normal_case(CaseSpec *cs, std::vector<std::string> *classes) {
  GeomSpec &g = cs->g;
  if (g.npoints == 0) return false;
  int na = -1;
  for (size_t i = 0; i < g.atts.size(); ++i)
    if (g.atts[i].type == GeometryAttribute::NORMAL) na = static_cast<int>(i);
  const int pa = g.pos_att();
  if (pa < 0) return false;
  if (na < 0) {
    // add a per-position-entry normal attribute (same map as the position attribute)
    AttSpec a = g.atts[pa];
    a.type = GeometryAttribute::NORMAL;
    uint32_t id = 4242;
    for (bool clash = true; clash;) {
      clash = false;
      for (auto &x : g.atts) clash |= x.unique_id == id;
      if (clash) ++id;
    }
    a.unique_id = id;
    g.atts.push_back(a);
    cs->o.per_att.push_back(AttOpt());
    na = static_cast<int>(g.atts.size()) - 1;
  }
  AttSpec &a = g.atts[na];
  a.dtype = draco::DT_FLOAT32;
  a.ncomp = 3;
  a.normalized = 0;
  a.data.assign(static_cast<size_t>(a.nvalues) * 12, 0);
  const bool bulk = a.nvalues > 150;
  SplitMix sm(U64());
  for (uint32_t v = 0; v < a.nvalues; ++v) {
    float x[3];
    std::string cls;
    if (v > 0 && (bulk ? sm.range(0, 9) : R(0, 9)) == 0) {
      memcpy(x, a.data.data() + static_cast<size_t>(bulk ? sm.below(v) : static_cast<uint64_t>(R(0, static_cast<int>(v) - 1))) * 12, 12);  // repeated value
    } else {
      gen_normal(x, &cls, bulk ? &sm : nullptr);
      if (!bulk || v < 40) classes->push_back(cls);
    }
    memcpy(a.data.data() + static_cast<size_t>(v) * 12, x, 12);
  }
  AttOpt no;
  no.qbits = W({25, 45, 30}) == 0 ? R(2, 7) : (P(60) ? R(8, 14) : R(15, open_finding("E1") ? (g_thorough ? 24 : 22) : 30));
  no.pred = pick({kPredUnset, kPredUnset, 0, 6, -2});
  // positions quantized or integer so that the geometric normal predictor is available
  AttOpt &po = cs->o.api == 1 ? cs->o.per_att[pa] : cs->o.per_type[GeometryAttribute::POSITION];
  if (g.atts[pa].dtype == draco::DT_FLOAT32 && po.qbits <= 0 && P(80)) po.qbits = R(8, 16);
  const bool pos_portable = (g.atts[pa].dtype == draco::DT_FLOAT32 && po.qbits > 0) ||
                            (g.atts[pa].dtype >= draco::DT_INT8 && g.atts[pa].dtype <= draco::DT_UINT32);
  if (no.pred == 6 && !(pos_portable && g.atts[pa].ncomp == 3) && open_finding("F18")) {
    no.pred = kPredUnset;  // known finding F18: forced geometric-normal prediction without integer positions
    count("excluded_F18_forced_mesh_prediction_without_portable_positions");
  }
  if (cs->o.api == 1) cs->o.per_att[na] = no;
  else cs->o.per_type[GeometryAttribute::NORMAL] = no;
  // other NORMAL attributes (api by type shares the options): drop them to keep one normal attribute
  for (size_t i = g.atts.size(); i-- > 0;) {
    if (static_cast<int>(i) != na && g.atts[i].type == GeometryAttribute::NORMAL) {
      g.atts.erase(g.atts.begin() + i);
      if (i < cs->o.per_att.size()) cs->o.per_att.erase(cs->o.per_att.begin() + i);
      if (static_cast<int>(i) < na) --na;
    }
  }
  if (P(35)) cs->o.enc_speed = cs->o.dec_speed = R(0, 3);  // favour the geometric normal predictor
  return true;
}

static std::string run_c07(const CaseSpec &cs, const std::vector<std::string> &gen_classes) {
  std::unique_ptr<draco::PointCloud> pc = build_geometry(cs.g);
  EncodeResult er = encode_case(cs, *pc);
  if (!er.status.ok()) {
    count("encode_error");
    return "";
  }
  DecodeResult N = decode_bytes(er.bytes);
  if (!N.status.ok()) {
    if (open_finding("F19") && f19_signature(er, cs)) return "";
    return "decode failed: " + N.status.error_msg_string();
  }
  count("encode_ok");
  classify(cs, er);
  for (auto &c : gen_classes) count(c);
  int na = -1;
  for (size_t i = 0; i + 1 < cs.g.atts.size(); ++i)
    if (cs.g.atts[i].type == GeometryAttribute::NORMAL) na = static_cast<int>(i);
  if (na < 0) return "";
  const AttSpec &a = cs.g.atts[na];
  const int q = cs.o.opt_for(cs.g, na).qbits;
  const bool kd = er.geometry_type == 0 && er.method == 1;
  if (kd) {
    count("kdtree_plain_quantization_of_normals (not octahedral, C04 territory)");
    return "";
  }
  std::vector<uint32_t> orig_of;
  std::string err = tag_map(cs, *N.geom, &orig_of);
  if (!err.empty()) return err;
  DecodeResult S = decode_bytes(er.bytes, {GeometryAttribute::NORMAL});
  if (!S.status.ok()) return "skip-transform decode failed";
  const draco::PointAttribute *dn = att_by_uid(*N.geom, a.unique_id), *sn = att_by_uid(*S.geom, a.unique_id);
  if (!dn || !sn || dn->data_type() != draco::DT_FLOAT32 || sn->num_components() != 2) return "normal attribute lost or not octahedral in the skip decode";
  bool nt = false;
  std::map<std::array<uint32_t, 3>, std::array<uint32_t, 3>> seen;
  for (uint32_t p = 0; p < N.geom->num_points(); ++p) {
    float out[3], in[3];
    int32_t st[2];
    dn->GetMappedValue(PointIndex(p), out);
    sn->GetMappedValue(PointIndex(p), st);
    memcpy(in, a.value(a.value_of_point(orig_of[p])), 12);
    err = check_normal(in, out, q, st);
    if (!err.empty()) return err;
    nt |= !normal_degenerate(in);
    std::array<uint32_t, 3> ik, ok;
    memcpy(ik.data(), in, 12);
    memcpy(ok.data(), out, 12);
    auto it = seen.find(ik);
    if (it == seen.end()) seen[ik] = ok;
    else if (it->second != ok) return "equal input normals decode to different vectors";
  }
  count(q <= 7 ? "normal_q_2_7" : q <= 14 ? "normal_q_8_14" : "normal_q_15_24");
  if (nt) {
    nontrivial(hash_tokens(to_tokens(cs)));
    if (cs.g.npoints <= 12) sample(describe_case(cs));
  }
  return "";
}

// Deterministic boundary streams for the frozen corpus (C05): exact point counts around the index-width thresholds of
// the sequential coder, large lattices for both Edgebreaker coders, every kd-tree level, wide symbol tables, metadata.
static std::string write_extra_corpus() {
  const std::string out = env("VERIF_CORPUS_OUT", "/tmp");
  int written = 0;
  auto emit = [&](const std::string &name, const CaseSpec &cs, draco::PointCloud *with_meta = nullptr) -> std::string {
    std::unique_ptr<draco::PointCloud> pc = build_geometry(cs.g);
    if (with_meta) {
      std::unique_ptr<draco::GeometryMetadata> gm(new draco::GeometryMetadata());
      gm->AddEntryString("name", "frozen");
      gm->AddEntryInt("answer", 42);
      gm->AddEntryDoubleArray("d", {1.5, -2.25});
      std::unique_ptr<draco::Metadata> sub(new draco::Metadata());
      sub->AddEntryBinary("blob", {1, 2, 3, 0, 255});
      std::unique_ptr<draco::Metadata> subsub(new draco::Metadata());
      subsub->AddEntryString("deep", "value");
      sub->AddSubMetadata("inner", std::move(subsub));
      gm->AddSubMetadata("group", std::move(sub));
      std::unique_ptr<draco::AttributeMetadata> am(new draco::AttributeMetadata());
      am->AddEntryString("semantic", "position");
      pc->AddMetadata(std::move(gm));
      pc->AddAttributeMetadata(0, std::move(am));
    }
    EncodeResult er = encode_case(cs, *pc);
    if (!er.status.ok()) return name + ": encode failed: " + er.status.error_msg_string();
    DecodeResult dr = decode_bytes(er.bytes);
    if (!dr.status.ok()) return name + ": does not decode: " + dr.status.error_msg_string();
    FILE *f = fopen((out + "/x_" + name + ".drc").c_str(), "wb");
    if (!f) return "cannot write";
    fwrite(er.bytes.data(), 1, er.bytes.size(), f);
    fclose(f);
    ++written;
    return "";
  };
  auto int_att = [](int type, int dtype, int ncomp, uint32_t uid, uint32_t n, uint32_t mod) {
    AttSpec a;
    a.type = type;
    a.dtype = dtype;
    a.ncomp = ncomp;
    a.unique_id = uid;
    a.identity = 1;
    a.nvalues = n;
    for (uint32_t i = 0; i < n; ++i)
      for (int c = 0; c < ncomp; ++c) put_scalar(a.data, dtype, (static_cast<uint64_t>(i) * 2654435761u + c * 97) % mod, 0);
    return a;
  };
  std::string e;
  // (1) sequential meshes with exact point counts, raw and compressed connectivity
  for (uint32_t n : {255u, 256u, 257u, 65535u, 65536u, 65537u}) {
    for (int cc : {0, 1}) {
      CaseSpec cs;
      cs.g.is_mesh = 1;
      cs.g.npoints = n;
      cs.g.atts.push_back(int_att(GeometryAttribute::POSITION, draco::DT_UINT8, 3, 0, n, 251));
      for (uint32_t f = 0; f < 60; ++f) {
        const uint32_t a = (f * 7919u) % n, b = (f * 104729u + 1) % n;
        cs.g.faces.insert(cs.g.faces.end(), {a, b, n - 1 - (f % 3)});
      }
      cs.o.api = 1;
      cs.o.method = 0;
      cs.o.compress_connectivity = cc;
      cs.o.per_att.resize(1);
      cs.o.per_type.resize(5);
      e = emit("seqmesh_" + std::to_string(n) + "pts_" + (cc ? "compressed" : "raw"), cs);
      if (!e.empty()) return e;
    }
  }
  // (2) lattices through both Edgebreaker coders
  for (int exact : {0, 1}) {
    for (int ebm : {0, 2}) {
      for (int speed : {0, 3, 7}) {
        CaseSpec cs;
        const int n = exact ? 31 : 30;
        cs.g.is_mesh = 1;
        AttSpec pos;
        pos.type = GeometryAttribute::POSITION;
        pos.dtype = draco::DT_FLOAT32;
        pos.ncomp = 3;
        pos.identity = 1;
        pos.nvalues = static_cast<uint32_t>((n + 1) * (n + 1));
        for (int i = 0; i <= n; ++i)
          for (int j = 0; j <= n; ++j) {
            put_scalar(pos.data, draco::DT_FLOAT32, 0, i);
            put_scalar(pos.data, draco::DT_FLOAT32, 0, j);
            put_scalar(pos.data, draco::DT_FLOAT32, 0, exact ? 0 : (i * j) % 5);
          }
        cs.g.npoints = pos.nvalues;
        for (int i = 0; i < n; ++i)
          for (int j = 0; j < n; ++j) {
            const uint32_t a = i * (n + 1) + j, b = (i + 1) * (n + 1) + j, c = (i + 1) * (n + 1) + j + 1, d = i * (n + 1) + j + 1;
            cs.g.faces.insert(cs.g.faces.end(), {a, b, c, a, c, d});
          }
        cs.g.atts.push_back(pos);
        cs.o.api = 1;
        cs.o.method = 1;
        cs.o.eb_method = ebm;
        cs.o.enc_speed = cs.o.dec_speed = speed;
        AttOpt q;
        q.qbits = exact ? 5 : 11;
        cs.o.per_att.assign(1, q);
        cs.o.per_type.resize(5);
        e = emit(std::string("lattice_") + (exact ? "exact" : "rough") + "_eb" + std::to_string(ebm) + "_speed" + std::to_string(speed), cs);
        if (!e.empty()) return e;
      }
    }
  }
  // (3) kd-tree levels 0..6, with metadata on two of them
  for (int level = 0; level <= 6; ++level) {
    CaseSpec cs;
    cs.g.is_mesh = 0;
    cs.g.npoints = 300;
    AttSpec pos;
    pos.type = GeometryAttribute::POSITION;
    pos.dtype = draco::DT_FLOAT32;
    pos.ncomp = 3;
    pos.identity = 1;
    pos.nvalues = 300;
    for (uint32_t i = 0; i < 300; ++i)
      for (int c = 0; c < 3; ++c) put_scalar(pos.data, draco::DT_FLOAT32, 0, ((i * 2654435761u + c * 40503u) % 10007) / 100.0);
    cs.g.atts.push_back(pos);
    cs.g.atts.push_back(int_att(GeometryAttribute::COLOR, draco::DT_UINT8, 3, 1, 300, 256));
    cs.g.atts.push_back(int_att(GeometryAttribute::GENERIC, draco::DT_INT16, 2, 2, 300, 30000));
    cs.o.api = 1;
    cs.o.method = 1;
    cs.o.enc_speed = cs.o.dec_speed = 10 - level;
    AttOpt q;
    q.qbits = 12;
    cs.o.per_att.assign(3, AttOpt());
    cs.o.per_att[0] = q;
    cs.o.per_type.resize(5);
    draco::PointCloud dummy;
    e = emit("kdtree_level" + std::to_string(level), cs, (level % 3 == 0) ? &dummy : nullptr);
    if (!e.empty()) return e;
  }
  // (4) wide raw symbol tables: sequential clouds with many distinct 16-bit values, several speeds
  for (int speed : {0, 5, 10}) {
    CaseSpec cs;
    cs.g.is_mesh = 0;
    cs.g.npoints = 9000;
    cs.g.atts.push_back(int_att(GeometryAttribute::POSITION, draco::DT_UINT16, 3, 0, 9000, 65521));
    cs.o.api = 1;
    cs.o.method = 0;
    cs.o.enc_speed = cs.o.dec_speed = speed;
    cs.o.per_att.resize(1);
    cs.o.per_type.resize(5);
    cs.o.per_att[0].pred = -2;
    e = emit("wide_symbols_speed" + std::to_string(speed), cs);
    if (!e.empty()) return e;
  }
  // (5) meshes with metadata through both mesh methods
  for (int method : {0, 1}) {
    CaseSpec cs;
    cs.g.is_mesh = 1;
    cs.g.npoints = 6;
    cs.g.atts.push_back(int_att(GeometryAttribute::POSITION, draco::DT_INT16, 3, 0, 6, 17));
    cs.g.faces = {0, 1, 3, 1, 4, 3, 1, 2, 4, 2, 5, 4};
    cs.o.api = 1;
    cs.o.method = method;
    cs.o.per_att.resize(1);
    cs.o.per_type.resize(5);
    draco::PointCloud dummy;
    e = emit(std::string("metadata_mesh_method") + std::to_string(method), cs, &dummy);
    if (!e.empty()) return e;
  }
  printf("extra corpus streams written: %d\n", written);
  return "";
}

static std::string run_mode_inner(const std::string &mode, const CaseSpec &cs, const std::vector<std::string> &classes) {
  if (mode == "gencorpus") return run_gencorpus(cs);
  if (mode == "c07") return run_c07(cs, classes);
  if (mode == "c10") return run_c10(cs, classes);
  if (mode == "c04") return run_c04(cs, classes);
  if (mode == "c01") return run_roundtrip(cs, 0, classes);
  if (mode == "c09") return run_roundtrip(cs, 9, classes);
  return "unknown mode " + mode;
}
static std::string run_mode(const std::string &mode, const CaseSpec &cs, const std::vector<std::string> &classes) {
  static const bool trace = *env("VERIF_TRACE") != 0;
  const auto t0 = std::chrono::steady_clock::now();
  std::string r = guarded([&] { return run_mode_inner(mode, cs, classes); });
  if (trace) {
    const double ms = std::chrono::duration<double, std::milli>(std::chrono::steady_clock::now() - t0).count();
    fprintf(stderr, "TRACE %.1fms %016llx %s %s\n", ms, (unsigned long long)hash_tokens(to_tokens(cs)), r.empty() ? "ok" : r.c_str(), describe_case(cs).c_str());
    if (std::string(env("VERIF_TRACE")) == "2") {
      CaseRecord c;
      c.mode = mode;
      c.tokens = to_tokens(cs);
      c.describe = describe_case(cs);
      write_replay(c, "trace");
    }
  }
  return r;
}

static GenCfg cfg_for(const std::string &mode) {
  GenCfg c;
  c.thorough = g_thorough;
  if (mode == "c09") {
    c.seam_focus = true;
    c.mesh_pct = 80;
  }
  if (mode == "c10" || mode == "c04") {
    c.lossy_focus = true;
    c.quant_pct = 80;
    c.mesh_pct = 60;
  }
  if (mode == "c04") c.max_extra_atts = 3;
  if (mode == "gencorpus") c.allow_large = false;
  if (mode == "c07") {
    c.allow_large = false;
    c.allow_wide = false;  // the normal attribute gets its own prediction options afterwards (geometric normal
                           // prediction squares position differences in int64)
    c.max_extra_atts = 2;
    c.mesh_pct = 75;
  }
  return c;
}

int main(int argc, char **argv) {
  g_thorough = std::string(env("VERIF_TIER", "quick")) == "thorough";
  Harness h;
  h.run = [&](const std::string &mode) {
    std::vector<std::string> classes;
    if (mode == "c12") {
      C12Spec sp;
      if (!gen_c12(&sp, &classes)) {
        count("generator_rejected_no_explicit_box");
        return std::string();
      }
      set_case(mode, to_tokens(sp), sp.a.g.npoints <= 100 ? "{\"A\":" + describe_case(sp.a) + ",\"B\":" + describe_case(sp.b) + "}" : std::string());
      return guarded([&] { return run_c12(sp); });
    }
    if (mode == "c04" && P(30)) {
      QuantSpec qs = gen_quant_spec();
      set_case("c04t", to_tokens(qs), J().num("q", qs.q).num("components", qs.ncomp).num("explicit_box", qs.explicit_box).num("values", static_cast<double>(qs.v.size() / qs.ncomp)).done());
      std::string e = guarded([&] { return run_c04_transform(qs); });
      count("transform_level_cases");
      count(qs.q <= 8 ? "transform_q_1_8" : qs.q <= 24 ? "transform_q_9_24" : "transform_q_25_30");
      if (qs.explicit_box) count("transform_explicit_box");
      if (e.empty() && qs.v.size() / qs.ncomp >= 2) {
        nontrivial(hash_tokens(to_tokens(qs)));
        if (stats().samples.size() < 1) {
          std::string vv = "[";
          for (size_t i = 0; i < qs.v.size() && i < 9; ++i) vv += (i ? "," : "") + std::to_string(qs.v[i]);
          sample(J().str("level", "AttributeQuantizationTransform").num("q", qs.q).num("components", qs.ncomp).raw("first_values", vv + "]").done(), 1);
        }
      }
      return e;
    }
    if (mode == "c07" && P(35)) {
      // transform level: every q in 2..30 without the entropy coder
      NormSpec ns;
      ns.q = R(2, 30);
      const int n = R(1, 40);
      for (int i = 0; i < n; ++i) {
        float x[3];
        std::string cls;
        gen_normal(x, &cls, nullptr);
        count(cls);
        ns.v.insert(ns.v.end(), x, x + 3);
      }
      set_case("c07t", to_tokens(ns), J().num("q", ns.q).num("vectors", n).done());
      std::string e = guarded([&] { return run_c07_transform(ns); });
      count("transform_level_cases");
      count(ns.q <= 24 ? "transform_q_2_24" : "transform_q_25_30");
      if (e.empty()) {
        nontrivial(hash_tokens(to_tokens(ns)));
        if (stats().samples.size() < 2) {
          std::string vv = "[";
          for (size_t i = 0; i < ns.v.size() && i < 9; ++i) vv += (i ? "," : "") + std::to_string(ns.v[i]);
          sample(J().str("level", "AttributeOctahedronTransform").num("q", ns.q).raw("first_vectors", vv + "]").done(), 2);
        }
      }
      return e;
    }
    CaseSpec cs = gen_case(cfg_for(mode), &classes);
    if (mode == "c07") {
      if (!make_normal_case(&cs, &classes)) return std::string();
      add_tag_attribute(&cs);
    }
    if (mode == "c04") {
      // one in five small point clouds stays untagged (all-float clouds: kd-tree paths a tagged cloud never takes)
      const bool untag = !cs.g.is_mesh && cs.g.npoints >= 1 && cs.g.npoints <= 1500 && hash_tokens(to_tokens(cs)) % 5 == 0;
      if (!untag) add_tag_attribute(&cs);
    }
    set_case(mode, to_tokens(cs), cs.g.npoints <= 200 ? describe_case(cs) : std::string());
    return run_mode(mode, cs, classes);
  };
  h.replay = [&](const std::string &mode, const std::vector<int64_t> &t) {
    if (mode == "c12") {
      C12Spec sp;
      if (!from_tokens(t, &sp)) return std::string("bad replay tokens");
      return guarded([&] { return run_c12(sp); });
    }
    if (mode == "c04t") {
      QuantSpec qs;
      if (!from_tokens(t, &qs)) return std::string("bad replay tokens");
      return guarded([&] { return run_c04_transform(qs); });
    }
    if (mode == "c07t") {
      NormSpec ns;
      if (!from_tokens(t, &ns)) return std::string("bad replay tokens");
      return guarded([&] { return run_c07_transform(ns); });
    }
    CaseSpec cs;
    if (!from_tokens(t, &cs)) return std::string("bad replay tokens");
    return run_mode(mode, cs, {});
  };
  h.enumerate = [&](const std::string &) { return write_extra_corpus(); };
  const std::string mode = env("VERIF_MODE", "c01");
  if (mode == "c01") {
    stats().rule =
        "rapidcheck-generated mesh / point-cloud specs (topology classes + mutations, 1..5 attributes, all data types, "
        "seams, isolated points) x option specs (API, method, sub-method, speeds, quantization, forced prediction, "
        "built-in compression, split-on-seams); non-trivial = encode succeeded and (mesh with >= 2 attributes or two "
        "faces sharing an edge | point cloud with >= 2 distinct points); distinct by spec hash";
  } else if (mode == "c07") {
    stats().rule =
        "float32 normal vectors (uniform directions; neighbourhoods 1e-7..1e-2 of the axes, octahedron edges, face centres "
        "and the hemisphere boundary; lengths 1e-5..1e30; a degenerate class) (a) through AttributeOctahedronTransform alone "
        "for q = 2..30 and (b) carried by meshes / point clouds of the shared generator (sequential and Edgebreaker, "
        "difference and geometric-normal prediction, q = 2..22, tag attribute for the correspondence); non-trivial = a case "
        "with >= 1 non-degenerate vector; distinct by spec hash";
  } else if (mode == "c10") {
    stats().rule =
        "same generator, every case with >= 1 quantized float attribute; each stream decoded normally and with the "
        "generated skip set, the full set and each single lossy type (thorough: all 32 subsets); non-trivial = the skip "
        "set selects >= 1 attribute that carries a transform; distinct by spec hash";
  } else if (mode == "c04") {
    stats().rule =
        "same generator, every case with >= 1 quantized float32 attribute (1..8 components, auto or explicit box, all "
        "methods, q up to 24/26) plus a uint32 tag attribute for the input<->decoded correspondence, and (30 % of the cases) "
        "AttributeQuantizationTransform alone for q = 1..30 with automatic and explicit parameters; non-trivial = a "
        "quantized attribute with >= 2 distinct decoded values; distinct by spec hash";
  } else if (mode == "c12") {
    stats().rule =
        "pairs (A,B): A from the shared generator with one explicitly quantized float attribute, B a separately "
        "generated mesh / point cloud holding a subset of A's coordinates plus private ones inside the same box, "
        "encoded with independent method / speed / API; non-trivial = >= 2 shared coordinates decoded on both sides";
  } else if (mode == "c09") {
    stats().rule =
        "same generator weighted towards seams / non-manifold / degenerate / isolated points with tracking on; "
        "non-trivial = encode succeeded and (point cloud | mesh with a seam, non-manifold edge, degenerate face or "
        "isolated point); distinct by spec hash";
  }
  return harness_main(argc, argv, h);
}
