// Geometry round-trip properties driven by the shared generator (common/geom.h):
//   c01  encode/decode round trip           c09  reported encoded counts
// (further modes are added in the same TU: they share generator and oracles)
#include <chrono>

#include "common/geom.h"

using namespace vf;
using namespace vg;

static bool g_thorough = false;

static std::string status_class(const draco::Status &s) {
  std::string m = s.error_msg_string();
  if (m.size() > 60) m.resize(60);
  for (auto &c : m)
    if (c == ' ') c = '_';
  return m.empty() ? "no_message" : m;
}

static bool shares_edge(const GeomSpec &g) {
  const int pa = g.pos_att();
  std::set<std::pair<uint32_t, uint32_t>> edges;
  for (size_t f = 0; f < g.nfaces(); ++f) {
    uint32_t v[3];
    for (int k = 0; k < 3; ++k) v[k] = pa >= 0 ? g.atts[pa].value_of_point(g.faces[3 * f + k]) : g.faces[3 * f + k];
    for (int k = 0; k < 3; ++k) {
      auto e = std::minmax(v[k], v[(k + 1) % 3]);
      if (e.first == e.second) continue;
      if (!edges.insert(e).second) return true;
    }
  }
  return false;
}

struct TopoInfo {
  bool has_seam = false, non_manifold = false, degenerate = false, isolated_point = false, duplicate_points = false;
};
static TopoInfo topo_info(const GeomSpec &g) {
  TopoInfo t;
  const int pa = g.pos_att();
  if (!g.is_mesh || pa < 0) return t;
  std::map<std::pair<uint32_t, uint32_t>, int> edge_count;
  std::vector<char> used(g.npoints, 0);
  std::map<uint32_t, std::set<uint32_t>> points_of_vertex;
  for (size_t f = 0; f < g.nfaces(); ++f) {
    uint32_t v[3];
    for (int k = 0; k < 3; ++k) {
      const uint32_t p = g.faces[3 * f + k];
      used[p] = 1;
      v[k] = g.atts[pa].value_of_point(p);
      points_of_vertex[v[k]].insert(p);
    }
    if (v[0] == v[1] || v[1] == v[2] || v[0] == v[2]) {
      t.degenerate = true;
      continue;
    }
    for (int k = 0; k < 3; ++k) edge_count[std::minmax(v[k], v[(k + 1) % 3])]++;
  }
  for (auto &kv : edge_count) t.non_manifold |= kv.second > 2;
  for (auto &kv : points_of_vertex) t.has_seam |= kv.second.size() > 1;
  for (uint32_t p = 0; p < g.npoints; ++p) t.isolated_point |= !used[p];
  return t;
}

static void classify(const CaseSpec &cs, const EncodeResult &er) {
  const char *m = er.geometry_type == 1 ? (er.method == 0 ? "method_mesh_sequential" : "method_mesh_edgebreaker")
                                        : (er.method == 0 ? "method_pc_sequential" : "method_pc_kdtree");
  count(m);
  if (er.geometry_type == 1 && er.method == 1 && er.bytes.size() > 11) {
    const uint16_t flags = static_cast<uint8_t>(er.bytes[9]) | (static_cast<uint8_t>(er.bytes[10]) << 8);
    if (!(flags & 0x8000)) count("edgebreaker_traversal_" + std::to_string(static_cast<int>(static_cast<uint8_t>(er.bytes[11]))));
  }
  count(std::string("api_") + (cs.o.api ? "expert" : "encoder"));
  count("speed_" + std::to_string(cs.o.speed()));
  for (size_t ai = 0; ai < cs.g.atts.size(); ++ai) {
    const AttSpec &a = cs.g.atts[ai];
    const AttOpt &ao = cs.o.opt_for(cs.g, static_cast<int>(ai));
    if (a.dtype == draco::DT_FLOAT32 && ao.qbits > 0) {
      count(a.type == GeometryAttribute::NORMAL && !(er.geometry_type == 0 && er.method == 1) ? "att_octahedral_normals" : "att_quantized_float");
      if (ao.explicit_q) count("att_explicit_quantization_used");
    } else if (a.dtype == draco::DT_FLOAT32) {
      count("att_raw_float");
    } else if (a.dtype == draco::DT_INT64 || a.dtype == draco::DT_UINT64 || a.dtype == draco::DT_FLOAT64 || a.dtype == draco::DT_BOOL) {
      count("att_raw_other");
    } else {
      count("att_integer");
    }
    if (ao.pred != kPredUnset) count("forced_prediction_" + std::to_string(ao.pred));
    if (a.ncomp > 4) count("att_components_5_8");
  }
  if (cs.o.builtin_compression == 0) count("builtin_compression_off");
  if (cs.o.split_on_seams == 1) count("split_on_seams_on");
  if (cs.o.compress_connectivity == 1 && er.geometry_type == 1 && er.method == 0) count("sequential_compressed_connectivity");
  if (cs.g.npoints >= 40) count("points_ge_40");
  if (cs.g.npoints >= 256) count("points_ge_256");
  if (cs.g.npoints >= 65536) count("points_ge_65536");
}

// Signature of known finding F19: sequential mesh stream with compressed connectivity (method byte 0) in which
// fewer than 3 bytes per face remain after the face / point counts - the decoder's plausibility check
// `num_faces > remaining_size / 3` rejects it.
static bool f19_signature(const EncodeResult &er, const CaseSpec &cs) {
  if (er.geometry_type != 1 || er.method != 0 || er.bytes.size() < 12) return false;
  const uint16_t flags = static_cast<uint8_t>(er.bytes[9]) | (static_cast<uint8_t>(er.bytes[10]) << 8);
  if (flags & 0x8000) return false;
  size_t off = 11;
  for (int k = 0; k < 2; ++k) {  // two varints: faces, points
    while (off < er.bytes.size() && (static_cast<uint8_t>(er.bytes[off]) & 0x80)) ++off;
    ++off;
  }
  if (off >= er.bytes.size()) return false;
  const size_t remaining = er.bytes.size() - off;
  return er.bytes[off] == 0 && cs.g.nfaces() > remaining / 3;
}

// C01 (+ C09 when tracking is on). `which`: 1 = C01 oracle, 9 = C09 oracle only, 0 = both.
static std::string run_roundtrip(const CaseSpec &cs, int which, const std::vector<std::string> &gen_classes) {
  std::unique_ptr<draco::PointCloud> pc = build_geometry(cs.g);
  EncodeResult er = encode_case(cs, *pc);
  if (!er.status.ok()) {
    count("encode_error");
    count("encode_error:" + status_class(er.status));
    if (*env("VERIF_TRACE")) fprintf(stderr, "ENCODE-ERROR %s\n", er.status.error_msg_string().c_str());
    return "";
  }
  count("encode_ok");
  const uint64_t h = hash_tokens(to_tokens(cs));
  DecodeResult dr = decode_bytes(er.bytes, {}, static_cast<int>(h & 1));
  if (!dr.status.ok() && open_finding("F19") && f19_signature(er, cs)) {
    // known finding F19 (signature over the case, see known_findings.json): counted, search continues
    count("known_F19_hit_sequential_compressed_connectivity_below_3_bytes_per_face");
    return "";
  }
  if (!dr.status.ok()) return "encode reported success but decoding fails: " + dr.status.error_msg_string();
  classify(cs, er);
  for (auto &c : gen_classes) count(c);
  const TopoInfo ti = topo_info(cs.g);
  if (ti.has_seam) count("mesh_with_attribute_seam_or_split_vertex");
  if (ti.non_manifold) count("mesh_non_manifold_edge");
  if (ti.degenerate) count("mesh_with_degenerate_face");
  if (ti.isolated_point) count("mesh_with_isolated_point");
  if (which != 9) {
    const Expected e = compute_expected(cs, er.geometry_type, er.method);
    for (size_t ai = 0; ai < cs.g.atts.size(); ++ai) {
      if (e.kind[ai] == kQuantized && !e.quant[ai].valid && cs.g.atts[ai].nvalues > 0) {
        return "encode succeeded for a quantized attribute whose values are not finite (no quantization exists)";
      }
    }
    std::string err = compare_geometry(cs, e, *dr.geom, er.geometry_type, er.method);
    if (!err.empty()) return err;
  }
  if (cs.o.track && which != 1) {
    const size_t dp = dr.geom->num_points();
    const size_t df = er.geometry_type == 1 ? static_cast<const draco::Mesh *>(dr.geom.get())->num_faces() : 0;
    if (er.reported_points != dp) {
      return "encoder reported " + std::to_string(er.reported_points) + " encoded points, decoder produced " + std::to_string(dp);
    }
    if (er.reported_faces != df) {
      return "encoder reported " + std::to_string(er.reported_faces) + " encoded faces, decoder produced " + std::to_string(df);
    }
    count("counts_compared");
  }
  bool nt;
  if (which == 9) {
    nt = cs.o.track && (!cs.g.is_mesh || ti.has_seam || ti.non_manifold || ti.degenerate || ti.isolated_point);
  } else if (cs.g.is_mesh) {
    nt = cs.g.atts.size() >= 2 || shares_edge(cs.g);
  } else {
    std::set<std::string> keys;
    const Expected e = compute_expected(cs, er.geometry_type, er.method);
    const auto order = atts_by_uid(cs.g);
    for (uint32_t p = 0; p < cs.g.npoints && keys.size() < 2; ++p) keys.insert(input_point_key(cs.g, e, order, p));
    nt = keys.size() >= 2;
  }
  if (nt) {
    nontrivial(h);
    if (cs.g.npoints <= 40) sample(describe_case(cs));
  }
  return "";
}

static std::string run_mode_inner(const std::string &mode, const CaseSpec &cs, const std::vector<std::string> &classes) {
  if (mode == "c01") return run_roundtrip(cs, 0, classes);
  if (mode == "c09") return run_roundtrip(cs, 9, classes);
  return "unknown mode " + mode;
}
static std::string run_mode(const std::string &mode, const CaseSpec &cs, const std::vector<std::string> &classes) {
  static const bool trace = *env("VERIF_TRACE") != 0;
  const auto t0 = std::chrono::steady_clock::now();
  std::string r = guarded([&] { return run_mode_inner(mode, cs, classes); });
  if (trace) {
    const double ms = std::chrono::duration<double, std::milli>(std::chrono::steady_clock::now() - t0).count();
    fprintf(stderr, "TRACE %.1fms %016llx %s %s\n", ms, (unsigned long long)hash_tokens(to_tokens(cs)), r.empty() ? "ok" : r.c_str(), describe_case(cs).c_str());
    if (std::string(env("VERIF_TRACE")) == "2") {
      CaseRecord c;
      c.mode = mode;
      c.tokens = to_tokens(cs);
      c.describe = describe_case(cs);
      write_replay(c, "trace");
    }
  }
  return r;
}

static GenCfg cfg_for(const std::string &mode) {
  GenCfg c;
  c.thorough = g_thorough;
  if (mode == "c09") {
    c.seam_focus = true;
    c.mesh_pct = 80;
  }
  return c;
}

int main(int argc, char **argv) {
  g_thorough = std::string(env("VERIF_TIER", "quick")) == "thorough";
  Harness h;
  h.run = [&](const std::string &mode) {
    std::vector<std::string> classes;
    CaseSpec cs = gen_case(cfg_for(mode), &classes);
    set_case(mode, to_tokens(cs), cs.g.npoints <= 200 ? describe_case(cs) : std::string());
    return run_mode(mode, cs, classes);
  };
  h.replay = [&](const std::string &mode, const std::vector<int64_t> &t) {
    CaseSpec cs;
    if (!from_tokens(t, &cs)) return std::string("bad replay tokens");
    return run_mode(mode, cs, {});
  };
  const std::string mode = env("VERIF_MODE", "c01");
  if (mode == "c01") {
    stats().rule =
        "rapidcheck-generated mesh / point-cloud specs (topology classes + mutations, 1..5 attributes, all data types, "
        "seams, isolated points) x option specs (API, method, sub-method, speeds, quantization, forced prediction, "
        "built-in compression, split-on-seams); non-trivial = encode succeeded and (mesh with >= 2 attributes or two "
        "faces sharing an edge | point cloud with >= 2 distinct points); distinct by spec hash";
  } else if (mode == "c09") {
    stats().rule =
        "same generator weighted towards seams / non-manifold / degenerate / isolated points with tracking on; "
        "non-trivial = encode succeeded and (point cloud | mesh with a seam, non-manifold edge, degenerate face or "
        "isolated point); distinct by spec hash";
  }
  return harness_main(argc, argv, h);
}
