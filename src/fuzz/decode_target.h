// Shared oracle for the decoder-facing properties:
//   C02  every decoding entry point returns a Status on arbitrary bytes: no memory error, no UB (sanitizers), no
//        assertion, no escaping exception other than a justified allocation failure, input bytes untouched, terminates
//   C03  a geometry returned with an ok Status is structurally valid and safe to read through the public accessors
//   C18  no single allocation and no live peak exceeds K0 + K * (input length + declared elements)
#ifndef VERIF_FUZZ_DECODE_TARGET_H_
#define VERIF_FUZZ_DECODE_TARGET_H_

#include <malloc.h>

#include <atomic>
#include <cstdint>
#include <cstdio>
#include <cstdlib>
#include <cstring>
#include <map>
#include <memory>
#include <new>
#include <string>
#include <vector>

#include "draco/animation/keyframe_animation.h"
#include "draco/animation/keyframe_animation_decoder.h"
#include "draco/attributes/attribute_octahedron_transform.h"
#include "draco/attributes/attribute_quantization_transform.h"
#include "draco/compression/decode.h"
#include "draco/core/verif_hooks.h"
#include "draco/mesh/mesh.h"
#include "draco/mesh/mesh_misc_functions.h"
#include "draco/point_cloud/point_cloud.h"

namespace vd {

// ---------------------------------------------------------------------------------------------
// Allocation monitor (global operator new / delete are replaced in the harness binary, see DEFINE_ALLOC_HOOKS).
struct AllocState {
  bool active = false;
  uint64_t live = 0, peak = 0, max_single = 0, requests = 0;
  uint64_t bound = ~0ull;          // current bound K0 + K * (L + D), refreshed when a count is declared
  uint64_t input_len = 0;
  uint64_t declared_points = 0, declared_faces = 0, declared_components = 0, declared_attributes = 0, declared_symbols = 0;
  bool unjustified = false;        // a request / live peak above the bound was seen
  uint64_t unjustified_size = 0;
  bool capped = false;             // a request above the physical cap was refused (bad_alloc)
};
inline AllocState &alloc_state() {
  static AllocState s;
  return s;
}

constexpr uint64_t kK0 = 48ull << 20;       // fixed overhead: rANS look-up tables (2^20 entries x 4 bytes) of the
                                            // concurrently live symbol decoders, bit-coder buffers, corner-table slack
constexpr uint64_t kK = 256;                // bytes per unit of (input length + declared elements)
constexpr uint64_t kSingleCap = 256ull << 20;  // physical caps of the sandbox run
constexpr uint64_t kLiveCap = 1024ull << 20;

inline uint64_t declared_units(const AllocState &s) {
  // D = (P + 3F) * (4 + C): every point / corner carries its indices and up to C attribute components
  const uint64_t c = std::min<uint64_t>(s.declared_components, 64 * 255);
  return (s.declared_points + 3 * s.declared_faces) * (4 + c) + s.declared_symbols;
}
inline void refresh_bound() {
  AllocState &s = alloc_state();
  const uint64_t units = s.input_len + declared_units(s);
  s.bound = units > (~0ull - kK0) / kK ? ~0ull : kK0 + kK * units;
}
inline void on_declared(int kind, uint64_t n) {
  AllocState &s = alloc_state();
  switch (kind) {
    case draco::verif::kDeclaredPoints: s.declared_points = std::max(s.declared_points, n); break;
    case draco::verif::kDeclaredFaces: s.declared_faces = std::max(s.declared_faces, n); break;
    case draco::verif::kDeclaredAttributes: s.declared_attributes = std::max(s.declared_attributes, n); break;
    case draco::verif::kDeclaredComponents: s.declared_components += n; break;
    case draco::verif::kDeclaredSymbols: s.declared_symbols = std::max(s.declared_symbols, n); break;
  }
  refresh_bound();
}

// returns false when the request must be refused (throw bad_alloc)
inline bool on_alloc(size_t size) {
  AllocState &s = alloc_state();
  if (!s.active) return true;
  ++s.requests;
  if (size > s.max_single) s.max_single = size;
  if (size > s.bound || s.live + size > s.bound) {
    if (!s.unjustified) s.unjustified_size = size;
    s.unjustified = true;
  }
  if (size > kSingleCap || s.live + size > kLiveCap) {
    s.capped = true;
    return false;
  }
  return true;
}
inline void on_allocated(void *p) {
  AllocState &s = alloc_state();
  if (!s.active || !p) return;
  s.live += malloc_usable_size(p);
  if (s.live > s.peak) s.peak = s.live;
  if (s.live > (kLiveCap + (64ull << 20)) && getenv("VERIF_DEBUG_ALLOC")) {
    fprintf(stderr, "DEBUG live %llu after block of %zu\n", (unsigned long long)s.live, malloc_usable_size(p));
    abort();
  }
}
inline void on_free(void *p) {
  AllocState &s = alloc_state();
  if (!s.active || !p) return;
  const uint64_t n = malloc_usable_size(p);
  s.live = s.live > n ? s.live - n : 0;
}

#define VERIF_DEFINE_ALLOC_HOOKS                                                                        \
  void *operator new(size_t n) {                                                                        \
    if (!vd::on_alloc(n)) throw std::bad_alloc();                                                       \
    void *p = malloc(n ? n : 1);                                                                        \
    if (!p) throw std::bad_alloc();                                                                     \
    vd::on_allocated(p);                                                                                \
    return p;                                                                                           \
  }                                                                                                     \
  void *operator new[](size_t n) { return operator new(n); }                                            \
  void *operator new(size_t n, const std::nothrow_t &) noexcept {                                       \
    if (!vd::on_alloc(n)) return nullptr;                                                               \
    void *p = malloc(n ? n : 1);                                                                        \
    vd::on_allocated(p);                                                                                \
    return p;                                                                                           \
  }                                                                                                     \
  void *operator new[](size_t n, const std::nothrow_t &t) noexcept { return operator new(n, t); }       \
  void operator delete(void *p) noexcept {                                                              \
    vd::on_free(p);                                                                                     \
    free(p);                                                                                            \
  }                                                                                                     \
  void operator delete[](void *p) noexcept { operator delete(p); }                                      \
  void operator delete(void *p, size_t) noexcept { operator delete(p); }                                \
  void operator delete[](void *p, size_t) noexcept { operator delete(p); }

// ---------------------------------------------------------------------------------------------
struct Outcome {
  std::string violation;        // empty = fine
  int property = 0;             // 2, 3 or 18: which property the violation belongs to
  bool reached_decoder = false; // some entry point got past header parsing (a count was declared)
  bool decoded_ok = false;
  bool tolerated_oom = false;
  std::string status_class;
  uint64_t peak = 0, max_single = 0, units = 0;
};

inline std::string validity(const draco::PointCloud &pc, const draco::Mesh *mesh) {
  const uint32_t np = pc.num_points();
  if (mesh) {
    for (uint32_t f = 0; f < mesh->num_faces(); ++f)
      for (int k = 0; k < 3; ++k)
        if (mesh->face(draco::FaceIndex(f))[k].value() >= np) return "face " + std::to_string(f) + " refers to point " + std::to_string(mesh->face(draco::FaceIndex(f))[k].value()) + " but the geometry has " + std::to_string(np) + " points";
  }
  for (int a = 0; a < pc.num_attributes(); ++a) {
    const draco::PointAttribute *att = pc.attribute(a);
    const std::string who = "attribute " + std::to_string(a) + ": ";
    if (!att) return who + "null";
    if (att->num_components() < 1) return who + "no components";
    if (att->data_type() <= draco::DT_INVALID || att->data_type() >= draco::DT_TYPES_COUNT) return who + "invalid data type";
    const int64_t stride = static_cast<int64_t>(att->num_components()) * draco::DataTypeLength(att->data_type());
    if (att->byte_stride() != stride) return who + "byte stride " + std::to_string(att->byte_stride()) + " != components * type size";
    if (att->size() > 0) {
      if (!att->buffer()) return who + "values without a buffer";
      if (static_cast<int64_t>(att->size()) * stride > static_cast<int64_t>(att->buffer()->data_size())) return who + "storage smaller than size() * stride";
    }
    if (att->is_mapping_identity()) {
      if (att->size() < np) return who + "identity mapping with " + std::to_string(att->size()) + " values for " + std::to_string(np) + " points";
    } else {
      if (att->indices_map_size() != np) return who + "explicit map of " + std::to_string(att->indices_map_size()) + " entries for " + std::to_string(np) + " points";
      for (uint32_t p = 0; p < np; ++p)
        if (att->mapped_index(draco::PointIndex(p)).value() >= att->size()) return who + "point " + std::to_string(p) + " maps to value " + std::to_string(att->mapped_index(draco::PointIndex(p)).value()) + " of " + std::to_string(att->size());
    }
  }
  return "";
}

// reads the geometry through the public accessors (under ASan: a gap in validity() still surfaces as a memory error)
inline uint64_t use_geometry(const draco::PointCloud &pc, const draco::Mesh *mesh) {
  uint64_t acc = 0;
  const uint32_t np = pc.num_points();
  std::vector<uint8_t> buf(256 * 8);
  for (int a = 0; a < pc.num_attributes(); ++a) {
    const draco::PointAttribute *att = pc.attribute(a);
    for (uint32_t p = 0; p < np; ++p) {
      att->GetMappedValue(draco::PointIndex(p), buf.data());
      acc += buf[0];
      float f[4];
      int64_t i64[4];
      if (att->num_components() <= 4 && att->data_type() != draco::DT_BOOL) {
        att->ConvertValue<float>(att->mapped_index(draco::PointIndex(p)), att->num_components(), f);
        att->ConvertValue<int64_t>(att->mapped_index(draco::PointIndex(p)), att->num_components(), i64);
      }
    }
    if (const draco::AttributeTransformData *td = att->GetAttributeTransformData()) {
      if (td->transform_type() == draco::ATTRIBUTE_QUANTIZATION_TRANSFORM) {
        draco::AttributeQuantizationTransform t;
        (void)t.InitFromAttribute(*att);
      } else if (td->transform_type() == draco::ATTRIBUTE_OCTAHEDRON_TRANSFORM) {
        draco::AttributeOctahedronTransform t;
        (void)t.InitFromAttribute(*att);
      }
    }
  }
  if (mesh) {
    for (uint32_t c = 0; c < mesh->num_faces() * 3; ++c) acc += mesh->CornerToPointId(draco::CornerIndex(c)).value();
    if (mesh->GetNamedAttribute(draco::GeometryAttribute::POSITION)) {
      std::unique_ptr<draco::CornerTable> ct = draco::CreateCornerTableFromPositionAttribute(mesh);
      if (ct) acc += ct->num_vertices();
    }
  }
  const draco::PointAttribute *pos = pc.GetNamedAttribute(draco::GeometryAttribute::POSITION);
  if (pos && pos->data_type() == draco::DT_FLOAT32 && pos->num_components() == 3 && np > 0) {
    draco::BoundingBox bb = pc.ComputeBoundingBox();
    acc += bb.IsValid();
  }
  if (const draco::GeometryMetadata *m = pc.GetMetadata()) acc += m->num_entries() + m->attribute_metadatas().size();
  return acc;
}

inline std::string status_class(const draco::Status &s) {
  if (s.ok()) return "ok";
  std::string m = s.error_msg_string();
  if (m.size() > 48) m.resize(48);
  for (auto &c : m)
    if (c == ' ') c = '_';
  return "code" + std::to_string(static_cast<int>(s.code())) + ":" + m;
}

// entry: 0 DecodeMeshFromBuffer, 1 DecodePointCloudFromBuffer, 2 DecodeBufferToGeometry(mesh),
//        3 DecodeBufferToGeometry(point cloud), 4 KeyframeAnimationDecoder, 5 natural (by GetEncodedGeometryType)
inline Outcome run_decode(const uint8_t *data, size_t size, int entry, unsigned skip_mask) {
  Outcome out;
  // exact-size heap copy (ASan sees over-reads) + pristine copy for the "input untouched" clause
  std::unique_ptr<char[]> blk(new char[size ? size : 1]);
  if (size) memcpy(blk.get(), data, size);
  AllocState &as = alloc_state();
  as = AllocState();
  as.input_len = size;
  refresh_bound();
  draco::verif::hooks().declared = on_declared;
  std::unique_ptr<draco::PointCloud> geom;
  draco::Status st;
  bool is_mesh = false;
  bool threw = false;
  std::string what;
  as.active = true;
  try {
    draco::DecoderBuffer db;
    db.Init(blk.get(), size);
    auto type = draco::Decoder::GetEncodedGeometryType(&db);
    int e = entry;
    if (e == 5) e = (type.ok() && type.value() == draco::TRIANGULAR_MESH) ? 0 : 1;
    draco::Decoder dec;
    for (int t = 0; t < 5; ++t)
      if (skip_mask & (1u << t)) dec.SetSkipAttributeTransform(static_cast<draco::GeometryAttribute::Type>(t));
    if (e == 0) {
      auto r = dec.DecodeMeshFromBuffer(&db);
      st = r.status();
      if (r.ok()) { geom = std::move(r).value(); is_mesh = true; }
    } else if (e == 1) {
      auto r = dec.DecodePointCloudFromBuffer(&db);
      st = r.status();
      if (r.ok()) geom = std::move(r).value();
    } else if (e == 2) {
      std::unique_ptr<draco::Mesh> m(new draco::Mesh());
      st = dec.DecodeBufferToGeometry(&db, m.get());
      if (st.ok()) { geom = std::move(m); is_mesh = true; }
    } else if (e == 3) {
      std::unique_ptr<draco::PointCloud> m(new draco::PointCloud());
      st = dec.DecodeBufferToGeometry(&db, m.get());
      if (st.ok()) geom = std::move(m);
    } else {
      std::unique_ptr<draco::KeyframeAnimation> an(new draco::KeyframeAnimation());
      draco::KeyframeAnimationDecoder kd;
      draco::DecoderOptions dopt;
      st = kd.Decode(dopt, &db, an.get());
      if (st.ok()) geom = std::move(an);
    }
  } catch (const std::bad_alloc &) {
    threw = true;
    what = "std::bad_alloc";
  } catch (const std::length_error &e) {
    threw = true;
    what = std::string("std::length_error: ") + e.what();
  } catch (const std::exception &e) {
    threw = true;
    what = std::string("exception: ") + e.what();
  }
  as.active = false;
  draco::verif::hooks().declared = nullptr;
  out.peak = as.peak;
  out.max_single = as.max_single;
  out.units = as.input_len + declared_units(as);
  out.reached_decoder = as.declared_points || as.declared_faces || as.declared_attributes;
  out.status_class = threw ? "threw:" + what : status_class(st);
  out.decoded_ok = !threw && st.ok() && geom;
  if (size > 0 && memcmp(blk.get(), data, size) != 0) {
    out.violation = "the decoder modified the caller's input bytes";
    out.property = 2;
    return out;
  }
  if (as.unjustified) {
    out.violation = "allocation of " + std::to_string(as.unjustified_size) + " bytes (live " + std::to_string(as.live) + ") exceeds K0 + K*(input length " +
                    std::to_string(as.input_len) + " + declared elements " + std::to_string(declared_units(as)) + ") = " + std::to_string(as.bound);
    out.property = 18;
    return out;
  }
  if (threw) {
    // within the bound (otherwise reported above): an allocation justified by declared counts hit the physical cap
    if (what == "std::bad_alloc" && as.capped) {
      out.tolerated_oom = true;
    } else {
      out.violation = "exception escapes from the decoder: " + what;
      out.property = 2;
    }
    return out;
  }
  if (out.decoded_ok) {
    const draco::Mesh *m = is_mesh ? static_cast<const draco::Mesh *>(geom.get()) : nullptr;
    std::string v = validity(*geom, m);
    if (!v.empty()) {
      out.violation = "decode returned ok but the geometry is inconsistent: " + v;
      out.property = 3;
      return out;
    }
    (void)use_geometry(*geom, m);
  }
  return out;
}

}  // namespace vd

#endif  // VERIF_FUZZ_DECODE_TARGET_H_
