// Semantic tampering for C02 / C03 / C18: small geometries are encoded with exactly one value altered just before
// entropy coding (a traversal symbol, a symbol handed to EncodeSymbols - attribute corrections, valence-coder
// symbols, compressed indices -, or a bit of a rANS bit coder - start-face, seam, crease, orientation and flip
// flags), which yields well-formed, length-consistent streams that describe inconsistent geometry. Every such stream
// goes through the decode oracle of decode_target.h.
#include "common/geom.h"
#include "fuzz/decode_target.h"

VERIF_DEFINE_ALLOC_HOOKS

using namespace vf;
using namespace vg;

static int g_prop_num = 2;

// ---- tamper plan (thread-local hooks of the library call back into these) ----------------------------------
struct Plan {
  int site = 0;          // 0 = none (count only), 1 symbols, 2 traversal symbols, 3 bits
  uint64_t index = 0;    // which occurrence (global counter per site over the whole encode)
  int op = 0;
  uint64_t seen[4] = {0, 0, 0, 0};
  bool applied = false;
};
static Plan g_plan;

static bool tamper_bit(bool bit) {
  const uint64_t i = g_plan.seen[3]++;
  if (g_plan.site == 3 && i == g_plan.index) {
    g_plan.applied = true;
    return !bit;
  }
  return bit;
}
static void tamper_u32(int site, uint32_t *data, uint64_t n) {
  const uint64_t base = g_plan.seen[site];
  g_plan.seen[site] += n;
  if (g_plan.site != site || g_plan.index < base || g_plan.index >= base + n) return;
  uint32_t &v = data[g_plan.index - base];
  const uint32_t old = v;
  if (site == draco::verif::kTamperTraversalSymbols) {
    static const uint32_t syms[5] = {0, 1, 3, 5, 7};  // C, S, L, R, E
    int k = 0;
    for (int i = 0; i < 5; ++i)
      if (syms[i] == old) k = i;
    v = syms[(k + 1 + g_plan.op % 4) % 5];
  } else {
    uint32_t mx = 0;
    for (uint64_t i = 0; i < n; ++i) mx = std::max(mx, data[i]);
    switch (g_plan.op % 5) {
      case 0: v = old ^ 1; break;
      case 1: v = old + 1; break;
      case 2: v = old ? 0 : 2; break;
      case 3: v = mx + 1; break;
      default: v = old + 1024; break;
    }
  }
  g_plan.applied = v != old;
}

struct Hooked {
  Hooked() {
    draco::verif::hooks().tamper_bit = tamper_bit;
    draco::verif::hooks().tamper_u32 = tamper_u32;
  }
  ~Hooked() {
    draco::verif::hooks().tamper_bit = nullptr;
    draco::verif::hooks().tamper_u32 = nullptr;
  }
};

struct TamperSpec {
  CaseSpec cs;
  int32_t site = 0;
  uint64_t index = 0;
  int32_t op = 0;
  int32_t entry = 5;
  uint32_t skip = 0;
  template <class A>
  void io(A &a) {
    a(cs); a(site); a(index); a(op); a(entry); a(skip);
  }
};

static std::string run_one(const TamperSpec &t, const draco::PointCloud &pc, bool *decoded_ok, bool *reached) {
  g_plan = Plan();
  g_plan.site = t.site;
  g_plan.index = t.index;
  g_plan.op = t.op;
  EncodeResult er;
  {
    Hooked h;
    er = encode_case(t.cs, pc);
  }
  if (!er.status.ok() || !g_plan.applied) {
    count(er.status.ok() ? "tamper_not_applied" : "tampered_encode_refused");
    return "";
  }
  vd::Outcome o = vd::run_decode(reinterpret_cast<const uint8_t *>(er.bytes.data()), er.bytes.size(), t.entry, t.skip);
  stats().evaluations++;
  *decoded_ok = o.decoded_ok;
  *reached = o.reached_decoder;
  count(t.site == 1 ? "tampered_symbol" : t.site == 2 ? "tampered_traversal_symbol" : "tampered_bit");
  if (o.decoded_ok) count("tampered_stream_decoded_ok");
  if (o.tolerated_oom) count("tolerated_declared_oom");
  if (stats().classes.size() < 300) count("status:" + o.status_class);
  if (!o.violation.empty() && o.property == g_prop_num) return o.violation;
  if (!o.violation.empty()) count("violation_of_sibling_property_C" + std::to_string(o.property) + "_seen (reported by that check)");
  return "";
}

static std::string describe(const TamperSpec &t) {
  static const char *sites[] = {"none", "EncodeSymbols input", "Edgebreaker traversal symbol", "rANS bit"};
  return "{\"tamper\":" + J().str("site", sites[t.site]).num("index", static_cast<double>(t.index)).num("op", t.op).num("entry_point", t.entry).num("skip_mask", t.skip).done() +
         ",\"geometry\":" + describe_case(t.cs) + "}";
}

int main(int argc, char **argv) {
  const std::string prop = env("VERIF_PROP", "C02");
  g_prop_num = atoi(prop.c_str() + 1);
  const bool thorough = std::string(env("VERIF_TIER", "quick")) == "thorough";
  stats().rule =
      "semantic tampering: geometries of the shared generator (<= ~60 faces, all methods) are re-encoded with exactly one "
      "value altered before entropy coding - every Edgebreaker traversal symbol replaced by each other symbol, every symbol "
      "handed to EncodeSymbols altered in 5 ways, every rANS-coded flag bit flipped (sampled down to a per-case budget) - "
      "and decoded through the oracle; non-trivial = a tampered stream that got past header parsing (C03: that decoded ok); "
      "distinct by (spec, tamper) hash";
  Harness h;
  h.run = [&](const std::string &mode) -> std::string {
    GenCfg cfg;
    cfg.allow_large = false;
    cfg.allow_lattice = false;
    cfg.max_extra_atts = 3;
    cfg.mesh_pct = 80;
    std::vector<std::string> classes;
    TamperSpec t;
    t.cs = gen_case(cfg, &classes);
    if (t.cs.g.npoints > 150) return "";
    std::unique_ptr<draco::PointCloud> pc = build_geometry(t.cs.g);
    // dry run: count the tamper sites of this encode
    g_plan = Plan();
    EncodeResult clean;
    {
      Hooked hk;
      clean = encode_case(t.cs, *pc);
    }
    if (!clean.status.ok()) {
      count("encode_error");
      return "";
    }
    const Plan counts = g_plan;
    count("cases_encoded");
    const int budget = thorough ? 1500 : 240;
    // per site: all (index, op) pairs when they fit the budget share, else a generated sample
    struct Site { int site; uint64_t n; int ops; };
    const Site sites[3] = {{2, counts.seen[2], 4}, {3, counts.seen[3], 1}, {1, counts.seen[1], 5}};
    for (const Site &s : sites) {
      if (s.n == 0) continue;
      const uint64_t total = s.n * s.ops;
      const uint64_t share = static_cast<uint64_t>(budget) / 3;
      for (uint64_t k = 0; k < std::min(total, share); ++k) {
        uint64_t pick = k;
        if (total > share) pick = static_cast<uint64_t>(R64(0, static_cast<int64_t>(total) - 1));
        t.site = s.site;
        t.index = pick / s.ops;
        t.op = static_cast<int>(pick % s.ops);
        t.entry = (k % 11 == 10) ? static_cast<int>(k % 5) : 5;
        t.skip = (k % 13 == 12) ? static_cast<uint32_t>(k % 32) : 0;
        set_case(mode, to_tokens(t), t.cs.g.npoints <= 60 ? describe(t) : std::string());
        bool ok = false, reached = false;
        std::string e = guarded([&] { return run_one(t, *pc, &ok, &reached); });
        if (!e.empty()) return e;
        if (g_prop_num == 3 ? ok : reached) {
          nontrivial(hash_tokens(to_tokens(t)));
          if (t.cs.g.npoints <= 12) sample(describe(t), 3);
        }
      }
    }
    return "";
  };
  h.replay = [&](const std::string &, const std::vector<int64_t> &tok) {
    TamperSpec t;
    if (!from_tokens(tok, &t)) return std::string("bad replay tokens");
    std::unique_ptr<draco::PointCloud> pc = build_geometry(t.cs.g);
    bool a = false, b = false;
    return guarded([&] { return run_one(t, *pc, &a, &b); });
  };
  return harness_main(argc, argv, h);
}
