// libFuzzer target for C02 / C03 / C18: coverage-guided search over byte strings with the oracles of decode_target.h.
// The last two bytes of the input select the entry point and the skip-attribute-transform mask.
#include <cstdio>
#include <cstdlib>

#include "fuzz/decode_target.h"

VERIF_DEFINE_ALLOC_HOOKS

static int g_prop = 2;
static unsigned long long g_execs = 0, g_reached = 0, g_ok = 0, g_oom = 0;

static void dump_counters() {
  const char *out = getenv("VERIF_OUT");
  if (!out || !*out) return;
  FILE *f = fopen(out, "w");
  if (!f) return;
  fprintf(f, "{\"evaluations\":%llu,\"classes\":{\"reached_decoder_logic\":%llu,\"decoded_ok\":%llu,\"tolerated_declared_oom\":%llu}}\n", g_execs, g_reached, g_ok, g_oom);
  fclose(f);
}

extern "C" int LLVMFuzzerInitialize(int *, char ***) {
  const char *p = getenv("VERIF_PROP");
  if (p && p[0] == 'C') g_prop = atoi(p + 1);
  atexit(dump_counters);
  return 0;
}

extern "C" int LLVMFuzzerTestOneInput(const uint8_t *data, size_t size) {
  if (size < 2) return 0;
  const int entry = data[size - 2] % 6;
  const unsigned skip = data[size - 1] % 32;
  vd::Outcome o = vd::run_decode(data, size - 2, entry, skip);
  ++g_execs;
  g_reached += o.reached_decoder;
  g_ok += o.decoded_ok;
  g_oom += o.tolerated_oom;
  if ((g_execs & 0x3fff) == 0) dump_counters();
  if (!o.violation.empty() && o.property == g_prop) {
    fprintf(stderr, "VERIF-VIOLATION C%02d: %s\n", o.property, o.violation.c_str());
    dump_counters();
    __builtin_trap();
  }
  return 0;
}
