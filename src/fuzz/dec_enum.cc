// Fault enumeration over seed streams for C02 / C03 / C18 (see decode_target.h for the oracles).
//   dec_enum                      enumerate (seed directories in VERIF_SEED_DIRS, sharded by VERIF_SHARD / VERIF_NSHARDS)
//   dec_enum --replay <file>      run one stored input (last two bytes: entry point, skip mask)
#include <dirent.h>
#include <signal.h>
#include <unistd.h>

#include <algorithm>
#include <chrono>
#include <fstream>
#include <set>
#include <unordered_set>

#include "common/vf.h"
#include "fuzz/decode_target.h"

VERIF_DEFINE_ALLOC_HOOKS

using namespace vf;

static std::string g_prop = "C02";
static int g_prop_num = 2;
static std::unordered_set<uint64_t> g_seen;
static uint64_t g_nontrivial = 0;
static std::vector<uint8_t> g_current;  // input under test incl. control bytes (for the watchdog / death hook)
static double g_max_ratio = 0, g_max_peak_small = 0;

static uint64_t hash_bytes(const uint8_t *p, size_t n, uint64_t h = 1469598103934665603ull) {
  for (size_t i = 0; i < n; ++i) {
    h ^= p[i];
    h *= 1099511628211ull;
  }
  return h;
}

static std::string save_input(const char *kind) {
  std::string dir = env("VERIF_REPLAY_DIR", "/verif/replay/tmp");
  char name[512];
  snprintf(name, sizeof name, "%s/%s-%s-%016llx.bin", dir.c_str(), g_prop.c_str(), kind, (unsigned long long)hash_bytes(g_current.data(), g_current.size()));
  std::ofstream f(name, std::ios::binary);
  f.write(reinterpret_cast<const char *>(g_current.data()), g_current.size());
  return name;
}
static void on_death() {
  if (!g_current.empty()) {
    stats().failures.push_back(save_input("crash"));
    stats().fail_message = "sanitizer abort (see log)";
  }
  write_stats();
}
static void on_alarm(int) {
  if (!g_current.empty()) {
    stats().failures.push_back(save_input("hang"));
    stats().fail_message = "decode did not finish within the watchdog limit";
  }
  write_stats();
  _exit(4);
}

// returns a violation message that belongs to the property under check ("" otherwise)
static std::chrono::steady_clock::time_point g_seed_deadline;
static bool g_seed_over_budget = false;

static std::string test_one(const std::vector<uint8_t> &bytes, int entry, unsigned skip, bool is_seed, const std::string &cls) {
  // A seed whose corrupted variants decode much more slowly than the seed itself (large declared counts) is cut off at
  // 4x its budget: the remaining mutations of that seed are skipped and counted - inconclusive, never a verdict.
  if (g_seed_over_budget) return "";
  if ((stats().evaluations & 63) == 0 && std::chrono::steady_clock::now() > g_seed_deadline) {
    g_seed_over_budget = true;
    count("seeds_cut_off_at_4x_budget");
    return "";
  }
  g_current = bytes;
  g_current.push_back(static_cast<uint8_t>(entry));
  g_current.push_back(static_cast<uint8_t>(skip));
  vd::Outcome o = vd::run_decode(bytes.data(), bytes.size(), entry, skip);
  stats().evaluations++;
  count("class_" + cls);
  if (o.reached_decoder) count("reached_decoder_logic");
  if (o.decoded_ok && !is_seed) count("corrupted_input_decoded_ok");
  if (o.tolerated_oom) count("tolerated_declared_oom");
  if (stats().classes.size() < 400) count("status:" + o.status_class);
  // C18 calibration data from inputs that decode
  if (o.decoded_ok && o.units > 0) {
    const double over = o.peak > vd::kK0 ? static_cast<double>(o.peak - vd::kK0) / o.units : 0;
    g_max_ratio = std::max(g_max_ratio, over);
    g_max_peak_small = std::max(g_max_peak_small, static_cast<double>(o.peak));
  }
  bool nt;
  if (g_prop_num == 3) nt = o.decoded_ok && !is_seed;
  else nt = o.reached_decoder && !is_seed;
  if (nt) {
    const uint64_t h = hash_bytes(g_current.data(), g_current.size());
    if (g_seen.insert(h).second) {
      ++g_nontrivial;
      if (stats().samples.size() < 4 && bytes.size() <= 96) {
        std::string hex;
        for (uint8_t b : bytes) {
          char t[4];
          snprintf(t, sizeof t, "%02x", b);
          hex += t;
        }
        sample(J().str("mutation", cls).num("entry_point", entry).num("skip_mask", skip).str("status", o.status_class).str("input_hex", hex).done());
      }
    }
  }
  if (!o.violation.empty() && o.property == g_prop_num) return o.violation;
  if (!o.violation.empty()) count("violation_of_sibling_property_C" + std::to_string(o.property) + "_seen (reported by that check)");
  return "";
}

struct Seed {
  std::string path;
  std::vector<uint8_t> bytes;
};

static std::vector<Seed> load_seeds(const char *var = "VERIF_SEED_DIRS", const char *dflt = "/verif/corpus/legacy") {
  std::vector<std::string> files;
  std::stringstream ss(env(var, dflt));
  std::string d;
  while (std::getline(ss, d, ':')) {
    DIR *dir = opendir(d.c_str());
    if (!dir) continue;
    while (dirent *e = readdir(dir)) {
      std::string n = e->d_name;
      if (n.size() > 4 && n.substr(n.size() - 4) == ".drc") files.push_back(d + "/" + n);
    }
    closedir(dir);
  }
  std::sort(files.begin(), files.end());
  std::vector<Seed> seeds;
  for (auto &f : files) {
    std::ifstream in(f, std::ios::binary);
    Seed s;
    s.path = f;
    s.bytes.assign(std::istreambuf_iterator<char>(in), std::istreambuf_iterator<char>());
    if (!s.bytes.empty()) seeds.push_back(s);
  }
  return seeds;
}

static void put_u32(std::vector<uint8_t> &b, size_t off, uint32_t v) {
  for (int i = 0; i < 4 && off + i < b.size(); ++i) b[off + i] = static_cast<uint8_t>(v >> (8 * i));
}
static std::vector<uint8_t> varint(uint64_t v) {
  std::vector<uint8_t> o;
  do {
    uint8_t b = v & 0x7f;
    v >>= 7;
    if (v) b |= 0x80;
    o.push_back(b);
  } while (v);
  return o;
}

static std::string enumerate_seed(const Seed &seed, const std::vector<Seed> &all, size_t seed_index, bool thorough, bool count_focus) {
  const std::vector<uint8_t> &s = seed.bytes;
  const size_t n = s.size();
  std::string e;
  // the seed itself through every entry point and some skip masks
  const auto t_start = std::chrono::steady_clock::now();
  for (int entry = 0; entry <= 5 && e.empty(); ++entry)
    for (unsigned skip : {0u, 31u, 1u, 10u}) {
      e = test_one(s, entry, skip, true, "valid_seed");
      if (!e.empty()) break;
    }
  if (!e.empty()) return e;
  const double seed_decode_seconds = std::chrono::duration<double>(std::chrono::steady_clock::now() - t_start).count() / 24.0;
  // Offsets below `dense` are enumerated exhaustively. The bound is 2048 (thorough 8192) for streams that decode in
  // well under a millisecond and shrinks for slow (large) seeds so that one seed costs about 2 s (thorough ~60 s):
  // about 40 mutated decodes are made per enumerated offset.
  size_t dense = thorough ? 8192 : 2048;
  {
    const double per_offset = 40.0 * std::max(seed_decode_seconds, 2e-5);
    const double budget = thorough ? 60.0 : 2.0;
    dense = std::min<size_t>(dense, std::max<size_t>(48, static_cast<size_t>(budget / per_offset)));
  }
  count(dense >= (thorough ? 8192u : 2048u) ? "seeds_with_full_dense_bound" : "seeds_with_reduced_dense_bound");
  const size_t stride = n > dense ? std::max<size_t>(thorough ? 13 : 61, n / (dense / 2 + 1)) : 1;
  auto offsets = [&](size_t limit) {
    std::vector<size_t> o;
    for (size_t i = 0; i < limit; ++i)
      if (i < dense || (i % stride) == (seed_index % stride)) o.push_back(i);
    return o;
  };
  auto ctl = [&](size_t off, int *entry, unsigned *skip) {
    // mostly the natural entry point; every 5th offset another one, with a varying skip mask
    *entry = (off % 5 == 4) ? static_cast<int>((off / 5) % 5) : 5;
    *skip = (off % 7 == 3) ? static_cast<unsigned>((off / 7) % 32) : 0;
  };
  int entry;
  unsigned skip;
  if (!count_focus) {
    // truncations
    for (size_t len : offsets(n)) {
      std::vector<uint8_t> m(s.begin(), s.begin() + len);
      ctl(len, &entry, &skip);
      e = test_one(m, entry, skip, false, "truncation");
      if (!e.empty()) return e;
    }
    // byte patterns
    for (size_t off : offsets(n)) {
      const uint8_t o = s[off];
      const uint8_t pats[6] = {0x00, 0xff, static_cast<uint8_t>(o ^ 0x01), static_cast<uint8_t>(o ^ 0x80), static_cast<uint8_t>(o + 1), static_cast<uint8_t>(o - 1)};
      for (int k = 0; k < 6; ++k) {
        if (pats[k] == o) continue;
        std::vector<uint8_t> m = s;
        m[off] = pats[k];
        ctl(off + k, &entry, &skip);
        e = test_one(m, entry, skip, false, "byte_pattern");
        if (!e.empty()) return e;
      }
    }
    // 32-bit patterns
    for (size_t off : offsets(n)) {
      for (uint32_t v : {0u, 0x7fffffffu, 0x80000000u, 0xffffffffu}) {
        std::vector<uint8_t> m = s;
        put_u32(m, off, v);
        if (m == s) continue;
        ctl(off, &entry, &skip);
        e = test_one(m, entry, skip, false, "u32_pattern");
        if (!e.empty()) return e;
      }
    }
    // varint patterns written over the bytes at the offset
    static const std::vector<std::vector<uint8_t>> vp = {
        {0x80, 0x80, 0x80, 0x80, 0x01}, {0xff, 0xff, 0xff, 0xff, 0x0f}, {0x80, 0x80, 0x80, 0x80, 0x80}, {0xff, 0xff, 0xff, 0xff, 0xff, 0xff, 0xff, 0xff, 0xff, 0xff}};
    for (size_t off : offsets(n)) {
      for (auto &p : vp) {
        std::vector<uint8_t> m = s;
        for (size_t k = 0; k < p.size() && off + k < m.size(); ++k) m[off + k] = p[k];
        if (m == s) continue;
        ctl(off, &entry, &skip);
        e = test_one(m, entry, skip, false, "varint_pattern");
        if (!e.empty()) return e;
      }
    }
    // header / version rewrites
    if (n >= 11) {
      for (int major = 0; major <= 3; ++major)
        for (int minor = 0; minor <= 4; ++minor)
          for (int type = 0; type <= 2; ++type)
            for (int method = 0; method <= 2; ++method) {
              std::vector<uint8_t> m = s;
              m[5] = static_cast<uint8_t>(major);
              m[6] = static_cast<uint8_t>(minor);
              m[7] = static_cast<uint8_t>(type);
              m[8] = static_cast<uint8_t>(method);
              if (m == s) continue;
              e = test_one(m, 5, 0, false, "header_rewrite");
              if (!e.empty()) return e;
              if ((major + minor + type + method) % 4 == 0) {
                m[10] ^= 0x80;  // metadata flag
                e = test_one(m, (major + minor) % 5, 0, false, "header_rewrite");
                if (!e.empty()) return e;
              }
            }
    }
    // splices: prefix of this seed + suffix of another
    if (!all.empty()) {
      SplitMix sm(hash_bytes(s.data(), std::min<size_t>(n, 64)) ^ static_cast<uint64_t>(atoi(env("VERIF_SEED", "1"))));
      const double slow = std::max(1.0, seed_decode_seconds / 2e-4);
      const int nspl = static_cast<int>((thorough ? 400 : 60) / slow) + 4;
      for (int k = 0; k < nspl; ++k) {
        const Seed &o = all[sm.below(all.size())];
        const size_t a = sm.below(n + 1), b = sm.below(o.bytes.size() + 1);
        std::vector<uint8_t> m(s.begin(), s.begin() + a);
        m.insert(m.end(), o.bytes.begin() + b, o.bytes.end());
        if (m.size() > (1u << 20)) continue;
        e = test_one(m, 5, static_cast<unsigned>(sm.below(32)), false, "splice");
        if (!e.empty()) return e;
      }
      // random multi-site corruptions
      const int nmulti = static_cast<int>((thorough ? 2000 : 300) / slow) + 10;
      for (int k = 0; k < nmulti; ++k) {
        std::vector<uint8_t> m = s;
        const int sites = 2 + static_cast<int>(sm.below(6));
        for (int j = 0; j < sites; ++j) m[sm.below(n)] = static_cast<uint8_t>(sm.next());
        e = test_one(m, sm.below(4) == 0 ? static_cast<int>(sm.below(5)) : 5, sm.below(4) == 0 ? static_cast<unsigned>(sm.below(32)) : 0, false, "multi_site");
        if (!e.empty()) return e;
      }
    }
  }
  // count / size fields: larger values written as u32 and as varint at every offset (C18 emphasis; also run for C02/C03)
  {
    const size_t lim = (count_focus || thorough) ? n : std::min<size_t>(n, 96);
    for (size_t off : offsets(lim)) {
      uint32_t cur = 0;
      for (int i = 0; i < 4 && off + i < n; ++i) cur |= static_cast<uint32_t>(s[off + i]) << (8 * i);
      const uint64_t vals[] = {static_cast<uint64_t>(s[off]) + 1, static_cast<uint64_t>(s[off]) * 2, 1u << 16, 1u << 24, 0x7fffffffu, 0xffffffffu, static_cast<uint64_t>(cur) * 2, static_cast<uint64_t>(cur) + 1};
      for (uint64_t v : vals) {
        std::vector<uint8_t> m = s;
        put_u32(m, off, static_cast<uint32_t>(v));
        if (m != s) {
          ctl(off, &entry, &skip);
          e = test_one(m, entry, skip, false, "count_u32");
          if (!e.empty()) return e;
        }
        // varint form: replaces the varint that starts at `off` (its continuation bytes are consumed)
        size_t end = off;
        while (end < n && (s[end] & 0x80) && end - off < 10) ++end;
        if (end < n) ++end;
        std::vector<uint8_t> mv(s.begin(), s.begin() + off);
        const std::vector<uint8_t> enc = varint(v);
        mv.insert(mv.end(), enc.begin(), enc.end());
        mv.insert(mv.end(), s.begin() + end, s.end());
        if (mv != s) {
          e = test_one(mv, entry, skip, false, "count_varint");
          if (!e.empty()) return e;
        }
      }
    }
  }
  return "";
}

// Light enumeration for the representatives of the structure classes that did not fit the dense set: every truncation
// and, at every offset, the four single-byte patterns that turn small counts / ids into 0, negative or larger values.
static std::string enumerate_light(const Seed &seed, size_t seed_index) {
  const std::vector<uint8_t> &s = seed.bytes;
  const size_t n = s.size();
  std::string e = test_one(s, 5, 0, true, "valid_seed");
  if (!e.empty()) return e;
  const size_t dense = 1024;
  const size_t stride = n > dense ? std::max<size_t>(17, n / (dense / 2 + 1)) : 1;
  for (size_t off = 0; off < n; ++off) {
    if (!(off < dense || (off % stride) == (seed_index % stride))) continue;
    const int entry = (off % 9 == 8) ? static_cast<int>((off / 9) % 5) : 5;
    const unsigned skip = (off % 7 == 3) ? static_cast<unsigned>((off / 7) % 32) : 0;
    {
      std::vector<uint8_t> m(s.begin(), s.begin() + off);
      e = test_one(m, entry, skip, false, "light_truncation");
      if (!e.empty()) return e;
    }
    const uint8_t o = s[off];
    const uint8_t pats[4] = {0x00, 0xff, static_cast<uint8_t>(o ^ 0x80), static_cast<uint8_t>(o + 1)};
    for (int k = 0; k < 4; ++k) {
      if (pats[k] == o) continue;
      std::vector<uint8_t> m = s;
      m[off] = pats[k];
      e = test_one(m, entry, skip, false, "light_byte_pattern");
      if (!e.empty()) return e;
    }
  }
  return "";
}

int main(int argc, char **argv) {
  if (&__sanitizer_set_death_callback) __sanitizer_set_death_callback(on_death);
  g_prop = env("VERIF_PROP", "C02");
  g_prop_num = atoi(g_prop.c_str() + 1);
  const bool thorough = std::string(env("VERIF_TIER", "quick")) == "thorough";
  for (int i = 1; i < argc; ++i) {
    if (std::string(argv[i]) == "--replay" && i + 1 < argc) {
      std::ifstream in(argv[i + 1], std::ios::binary);
      std::vector<uint8_t> b((std::istreambuf_iterator<char>(in)), std::istreambuf_iterator<char>());
      if (b.size() < 2) {
        printf("REPLAY-ERROR short file\n");
        return 2;
      }
      const int entry = b[b.size() - 2] % 6;
      const unsigned skip = b[b.size() - 1] % 32;
      b.resize(b.size() - 2);
      vd::Outcome o = vd::run_decode(b.data(), b.size(), entry, skip);
      if (!o.violation.empty() && o.property == g_prop_num) {
        printf("REPLAY-FAIL %s\n", o.violation.c_str());
        return 1;
      }
      printf("REPLAY-PASS (status %s)\n", o.status_class.c_str());
      return 0;
    }
  }
  signal(SIGALRM, on_alarm);
  const int shard = atoi(env("VERIF_SHARD", "0")), nshards = std::max(1, atoi(env("VERIF_NSHARDS", "1")));
  std::vector<Seed> seeds = load_seeds();
  stats().rule =
      "fault enumeration on " + std::to_string(seeds.size()) +
      " seed streams (legacy testdata streams of bitstream versions 1.1..2.3 + streams regenerated from the geometry generator): "
      "every truncation; at every offset the byte patterns {00, FF, ^01, ^80, +1, -1}, 32-bit patterns {0, 7FFFFFFF, 80000000, "
      "FFFFFFFF}, varint patterns {overlong, max, 5 and 10 continuation bytes}; count fields rewritten as u32 and varint to "
      "{+1, x2, 2^16, 2^24, 2^31-1, 2^32-1}; header rewrites (major 0..3 x minor 0..4 x type x method, metadata flag); splices and "
      "random multi-site corruptions; the representatives of further structure classes (light seeds) get every truncation and the "
      "byte patterns {00, FF, ^80, +1} only; seeds longer than the dense bound are enumerated densely up to it and sampled beyond; each "
      "input through the natural entry point and, rotating, the other entry points and skip masks. Non-trivial (" +
      std::string(g_prop_num == 3 ? "C03: a corrupted input on which a decode call returned ok" : "a corrupted input that got past header parsing - a count was declared") +
      "), distinct by input hash (shards work on disjoint seeds; per-shard distinct counts are summed)";
  const bool count_focus = g_prop_num == 18 && !thorough;
  std::string err;
  size_t mine = 0;
  for (size_t i = 0; i < seeds.size() && err.empty(); ++i) {
    if (static_cast<int>(i % nshards) != shard) continue;
    ++mine;
    alarm(thorough ? 3000 : 900);  // per seed; individual decodes take micro- to milliseconds
    g_seed_over_budget = false;
    g_seed_deadline = std::chrono::steady_clock::now() + std::chrono::seconds(thorough ? 240 : 8);
    err = enumerate_seed(seeds[i], seeds, i, thorough, count_focus);
  }
  {
    std::vector<Seed> light = load_seeds("VERIF_LIGHT_SEED_DIRS", "");
    size_t lmine = 0;
    for (size_t i = 0; i < light.size() && err.empty(); ++i) {
      if (static_cast<int>(i % nshards) != (shard + 7) % nshards) continue;
      ++lmine;
      alarm(thorough ? 3000 : 900);
      g_seed_over_budget = false;
      g_seed_deadline = std::chrono::steady_clock::now() + std::chrono::seconds(thorough ? 120 : 4);
      err = enumerate_light(light[i], i);
    }
    count("light_seed_streams", lmine);
  }
  alarm(0);
  count("seed_streams", mine);
  stats().classes["c18_calibration_max_(peak-K0)/units_x1000_over_valid_decodes"] = static_cast<uint64_t>(g_max_ratio * 1000);
  stats().classes["c18_calibration_max_peak_bytes_over_valid_decodes"] = static_cast<uint64_t>(g_max_peak_small);
  stats().classes["nontrivial_count"] = g_nontrivial;
  if (!err.empty()) {
    stats().fail_message = err;
    stats().failures.push_back(save_input("fail"));
    printf("ENUM-FAIL %s\n", err.c_str());
  }
  g_current.clear();
  write_stats();
  return err.empty() ? 0 : 1;
}
