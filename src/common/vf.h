// Common harness support: token archive for case specs, counters / evidence output, rapidcheck helpers,
// replay files, sanitizer death hook. Header-only; included once per harness TU.
#ifndef VERIF_COMMON_VF_H_
#define VERIF_COMMON_VF_H_

#include <rapidcheck.h>

#include <signal.h>
#include <unistd.h>

#include <array>
#include <cinttypes>
#include <cstdint>
#include <cstdio>
#include <cstdlib>
#include <cstring>
#include <functional>
#include <map>
#include <set>
#include <sstream>
#include <string>
#include <type_traits>
#include <unordered_set>
#include <vector>

extern "C" void __sanitizer_set_death_callback(void (*callback)(void)) __attribute__((weak));

extern "C" void __sanitizer_print_memory_profile(size_t top_percent, size_t max_number_of_contexts) __attribute__((weak));
namespace vf {

// ---------------------------------------------------------------------------------------------
// Token archive: a spec is (de)serialised as a flat list of int64 tokens.
struct Ar {
  std::vector<int64_t> t;
  size_t p = 0;
  bool rd = false;
  bool bad = false;
  int64_t next() {
    if (p >= t.size()) {
      bad = true;
      return 0;
    }
    return t[p++];
  }
  template <class T>
  typename std::enable_if<std::is_integral<T>::value || std::is_enum<T>::value>::type operator()(T &x) {
    if (rd) {
      x = static_cast<T>(next());
    } else {
      t.push_back(static_cast<int64_t>(x));
    }
  }
  void operator()(float &x) {
    uint32_t b;
    memcpy(&b, &x, 4);
    (*this)(b);
    memcpy(&x, &b, 4);
  }
  void operator()(double &x) {
    int64_t b;
    memcpy(&b, &x, 8);
    (*this)(b);
    memcpy(&x, &b, 8);
  }
  void operator()(std::string &s) {
    uint64_t n = s.size();
    (*this)(n);
    if (rd) {
      if (n > (1u << 26)) {
        bad = true;
        n = 0;
      }
      s.resize(n);
    }
    for (auto &c : s) {
      uint8_t u = static_cast<uint8_t>(c);
      (*this)(u);
      c = static_cast<char>(u);
    }
  }
  template <class T>
  void operator()(std::vector<T> &v) {
    uint64_t n = v.size();
    (*this)(n);
    if (rd) {
      if (n > (1u << 26)) {
        bad = true;
        n = 0;
      }
      v.resize(n);
    }
    for (size_t i = 0; i < v.size(); ++i) {
      elem(v, i);
    }
  }
  template <class T, size_t N>
  void operator()(std::array<T, N> &v) {
    for (auto &e : v) (*this)(e);
  }
  template <class T>
  auto operator()(T &x) -> decltype(x.io(*this), void()) {
    x.io(*this);
  }

 private:
  template <class T>
  void elem(std::vector<T> &v, size_t i) {
    (*this)(v[i]);
  }
  void elem(std::vector<bool> &v, size_t i) {
    uint8_t b = v[i];
    (*this)(b);
    v[i] = b != 0;
  }
};

template <class S>
std::vector<int64_t> to_tokens(const S &s) {
  Ar a;
  const_cast<S &>(s).io(a);
  return a.t;
}
template <class S>
bool from_tokens(const std::vector<int64_t> &t, S *s) {
  Ar a;
  a.t = t;
  a.rd = true;
  s->io(a);
  return !a.bad && a.p == a.t.size();
}
inline uint64_t hash_tokens(const std::vector<int64_t> &t) {
  uint64_t h = 1469598103934665603ull;
  for (int64_t v : t) {
    for (int i = 0; i < 8; ++i) {
      h ^= static_cast<uint8_t>(v >> (8 * i));
      h *= 1099511628211ull;
    }
  }
  return h;
}

// ---------------------------------------------------------------------------------------------
// JSON helpers (writer only + token extraction for replay files).
inline std::string jstr(const std::string &s) {
  std::string o = "\"";
  for (unsigned char c : s) {
    if (c == '"' || c == '\\') {
      o += '\\';
      o += static_cast<char>(c);
    } else if (c < 0x20 || c >= 0x7f) {
      char b[8];
      snprintf(b, sizeof b, "\\u%04x", c);
      o += b;
    } else {
      o += static_cast<char>(c);
    }
  }
  return o + "\"";
}

struct J {  // tiny JSON object builder
  std::string s = "{";
  bool first = true;
  void key(const std::string &k) {
    if (!first) s += ",";
    first = false;
    s += jstr(k) + ":";
  }
  J &num(const std::string &k, double v) {
    key(k);
    char b[64];
    if (v > -1e15 && v < 1e15 && v == static_cast<double>(static_cast<int64_t>(v))) {
      snprintf(b, sizeof b, "%" PRId64, static_cast<int64_t>(v));
    } else {
      if (v != v || v - v != 0) {
        snprintf(b, sizeof b, "\"%g\"", v);  // NaN / inf are not JSON numbers
      } else {
        snprintf(b, sizeof b, "%.9g", v);
      }
    }
    s += b;
    return *this;
  }
  J &str(const std::string &k, const std::string &v) {
    key(k);
    s += jstr(v);
    return *this;
  }
  J &raw(const std::string &k, const std::string &v) {
    key(k);
    s += v;
    return *this;
  }
  std::string done() const { return s + "}"; }
};
template <class T>
std::string jarr(const std::vector<T> &v, size_t max_n = 1u << 30) {
  std::string s = "[";
  for (size_t i = 0; i < v.size() && i < max_n; ++i) {
    if (i) s += ",";
    s += std::to_string(v[i]);
  }
  if (v.size() > max_n) s += ",\"...\"";
  return s + "]";
}

// ---------------------------------------------------------------------------------------------
// Stats shared by all harnesses.
struct Stats {
  uint64_t evaluations = 0;
  std::map<std::string, uint64_t> classes;
  std::unordered_set<uint64_t> nontrivial;
  std::vector<std::string> samples;  // JSON values
  std::string rule;
  std::vector<std::string> failures;  // replay paths
  std::string fail_message;
  bool exhaustive = false;
  bool have_exhaustive = false;
};
inline Stats &stats() {
  static Stats s;
  return s;
}
inline void count(const std::string &cls, uint64_t n = 1) { stats().classes[cls] += n; }
inline void sample(const std::string &json, size_t max_samples = 4) {
  auto &s = stats();
  if (s.samples.size() < max_samples) s.samples.push_back(json);
}
inline void nontrivial(uint64_t h) { stats().nontrivial.insert(h); }

inline const char *env(const char *k, const char *d = "") {
  const char *v = getenv(k);
  return v ? v : d;
}
inline bool open_finding(const std::string &id) {  // is a known finding still open (=> exclude by construction)
  static std::set<std::string> open = [] {
    std::set<std::string> s;
    std::stringstream ss(env("VERIF_OPEN"));
    std::string tok;
    while (std::getline(ss, tok, ',')) {
      if (!tok.empty()) s.insert(tok);
    }
    return s;
  }();
  return open.count(id) != 0;
}

inline void write_stats() {
  const char *out = getenv("VERIF_OUT");
  if (!out || !*out) return;
  auto &s = stats();
  // written to a temporary name and renamed, so that a reader (or a kill) never sees half a file
  const std::string tmp_name = std::string(out) + ".tmp";
  FILE *f = fopen(tmp_name.c_str(), "w");
  if (!f) return;
  fprintf(f, "{\"evaluations\":%" PRIu64 ",\"rule\":%s,\"classes\":{", s.evaluations, jstr(s.rule).c_str());
  bool first = true;
  for (auto &kv : s.classes) {
    fprintf(f, "%s%s:%" PRIu64, first ? "" : ",", jstr(kv.first).c_str(), kv.second);
    first = false;
  }
  fprintf(f, "},\"nontrivial\":[");
  first = true;
  if (s.nontrivial.size() > 400000) s.classes["nontrivial_count"] += 0;  // (huge sets are reported by count only)
  for (uint64_t h : s.nontrivial) {
    fprintf(f, "%s\"%016" PRIx64 "\"", first ? "" : ",", h);
    first = false;
  }
  fprintf(f, "],\"samples\":[");
  for (size_t i = 0; i < s.samples.size(); ++i) fprintf(f, "%s%s", i ? "," : "", s.samples[i].c_str());
  fprintf(f, "],\"failures\":[");
  for (size_t i = 0; i < s.failures.size(); ++i) fprintf(f, "%s%s", i ? "," : "", jstr(s.failures[i]).c_str());
  fprintf(f, "],\"fail_message\":%s", jstr(s.fail_message).c_str());
  if (s.have_exhaustive) fprintf(f, ",\"exhaustive\":%s", s.exhaustive ? "true" : "false");
  fprintf(f, "}\n");
  fclose(f);
  rename(tmp_name.c_str(), out);
}
// Partial statistics every 30 s: a shard that is stopped by the driver's time limit still reports what it explored.
inline void write_stats_periodically() {
  static time_t last = time(nullptr);
  const time_t now = time(nullptr);
  if (now - last >= 30) {
    last = now;
    write_stats();
  }
}

// ---------------------------------------------------------------------------------------------
// Replay files.
struct CaseRecord {
  std::string mode;
  std::vector<int64_t> tokens;
  std::string describe;  // JSON
  std::string message;
};
inline CaseRecord &current_case() {
  static CaseRecord c;
  return c;
}
inline CaseRecord &last_failed() {
  static CaseRecord c;
  return c;
}

inline std::string write_replay(const CaseRecord &c, const char *kind) {
  std::string dir = env("VERIF_REPLAY_DIR", "/verif/replay/tmp");
  char name[256];
  snprintf(name, sizeof name, "%s/%s-%s-%016" PRIx64 ".json", dir.c_str(), env("VERIF_PROP", "X"), kind,
           hash_tokens(c.tokens));
  FILE *f = fopen(name, "w");
  if (!f) return "";
  fprintf(f, "{\"property\":%s,\"mode\":%s,\"kind\":%s,\"message\":%s,\n\"spec\":%s,\n\"tokens\":%s}\n",
          jstr(env("VERIF_PROP", "X")).c_str(), jstr(c.mode).c_str(), jstr(kind).c_str(), jstr(c.message).c_str(),
          c.describe.empty() ? "null" : c.describe.c_str(), jarr(c.tokens).c_str());
  fclose(f);
  return name;
}

inline bool read_replay(const std::string &path, std::string *mode, std::vector<int64_t> *tokens) {
  FILE *f = fopen(path.c_str(), "r");
  if (!f) return false;
  std::string txt;
  char buf[65536];
  size_t n;
  while ((n = fread(buf, 1, sizeof buf, f)) > 0) txt.append(buf, n);
  fclose(f);
  size_t m = txt.find("\"mode\":\"");
  if (m != std::string::npos) {
    m += 8;
    size_t e = txt.find('"', m);
    *mode = txt.substr(m, e - m);
  }
  size_t p = txt.rfind("\"tokens\":[");
  if (p == std::string::npos) return false;
  p += 10;
  tokens->clear();
  const char *s = txt.c_str() + p;
  while (*s && *s != ']') {
    char *e;
    long long v = strtoll(s, &e, 10);
    if (e == s) break;
    tokens->push_back(v);
    s = e;
    while (*s == ',' || *s == ' ' || *s == '\n') ++s;
  }
  return true;
}

inline void death_callback() {
  // A sanitizer is aborting the process in the middle of a case: dump it so that the driver can replay.
  auto &c = current_case();
  if (!c.tokens.empty()) {
    c.message = "sanitizer abort (see stderr)";
    std::string p = write_replay(c, "crash");
    if (!p.empty()) {
      stats().failures.push_back(p);
      stats().fail_message = c.message;
    }
  }
  write_stats();
}

// ---------------------------------------------------------------------------------------------
// rapidcheck helpers. All ranges inclusive; wrapped in resize so that they do not collapse at small sizes.
inline int R(int lo, int hi) { return *rc::gen::resize(100, rc::gen::inRange<int>(lo, hi + 1)); }
inline int64_t R64(int64_t lo, int64_t hi) {
  if (hi == INT64_MAX) {
    if (lo == INT64_MIN) return *rc::gen::resize(100, rc::gen::arbitrary<int64_t>());
    const int64_t v = *rc::gen::resize(100, rc::gen::inRange<int64_t>(lo - 1, hi));
    return v + 1;
  }
  return *rc::gen::resize(100, rc::gen::inRange<int64_t>(lo, hi + 1));
}
inline bool P(int percent) { return R(0, 99) < percent; }
inline uint32_t U32() { return static_cast<uint32_t>(R64(0, 0xffffffffll)); }
inline uint64_t U64() { return (static_cast<uint64_t>(U32()) << 32) | U32(); }
// index chosen with the given integer weights
inline int W(std::initializer_list<int> w) {
  int tot = 0;
  for (int x : w) tot += x;
  int r = R(0, tot - 1);
  int i = 0;
  for (int x : w) {
    if (r < x) return i;
    r -= x;
    ++i;
  }
  return static_cast<int>(w.size()) - 1;
}
template <class T>
T pick(std::initializer_list<T> l) {
  int i = R(0, static_cast<int>(l.size()) - 1);
  return *(l.begin() + i);
}

// deterministic bulk generator seeded from a generated value (the seed is part of the spec).
struct SplitMix {
  uint64_t s;
  explicit SplitMix(uint64_t seed) : s(seed) {}
  uint64_t next() {
    uint64_t z = (s += 0x9e3779b97f4a7c15ull);
    z = (z ^ (z >> 30)) * 0xbf58476d1ce4e5b9ull;
    z = (z ^ (z >> 27)) * 0x94d049bb133111ebull;
    return z ^ (z >> 31);
  }
  uint64_t below(uint64_t n) { return n ? next() % n : 0; }
  int range(int lo, int hi) { return lo + static_cast<int>(below(static_cast<uint64_t>(hi - lo + 1))); }
  double unit() { return (next() >> 11) * (1.0 / 9007199254740992.0); }
};

// ---------------------------------------------------------------------------------------------
// Generic main: `run(mode)` generates one case with rapidcheck picks and returns "" or a failure message;
// `replay(mode, tokens)` runs the oracle on a stored spec.
struct Harness {
  // generate + run one case. Must call set_case() before running the oracle.
  std::function<std::string(const std::string &mode)> run;
  std::function<std::string(const std::string &mode, const std::vector<int64_t> &tokens)> replay;
  // optional: deterministic probe of a known finding; returns "" when the finding no longer reproduces.
  std::function<std::string(const std::string &id)> probe;
  // optional: non-rapidcheck mode (enumerators). Return value as run().
  std::function<std::string(const std::string &mode)> enumerate;
};

// Watchdog: a case that runs longer than VERIF_CASE_TIMEOUT seconds (default 300 - three to five orders of
// magnitude above a normal case) is dumped as a "hang" replay and the process exits; the driver re-runs it in
// isolation before believing it.
inline void alarm_handler(int) {
  auto &c = current_case();
  if (!c.tokens.empty()) {
    c.message = "case did not finish within the watchdog limit";
    std::string p = write_replay(c, "hang");
    if (!p.empty()) {
      stats().failures.push_back(p);
      stats().fail_message = c.message;
    }
  }
  write_stats();
  _exit(4);
}
inline void arm_watchdog() {
  static const int limit = atoi(env("VERIF_CASE_TIMEOUT", "300"));
  static bool installed = false;
  if (!installed) {
    signal(SIGALRM, alarm_handler);
    installed = true;
  }
  alarm(limit > 0 ? limit : 300);
}

// VERIF_PRESAVE=1 (used under ThreadSanitizer, whose death callback must not allocate): the case is written to a
// "pending" replay file before it runs and the file is removed when the case finishes; a pending file left behind by a
// process that died is the crash replay.
inline bool presave() {
  static const bool on = *env("VERIF_PRESAVE") != 0;
  return on;
}
inline std::string &pending_path() {
  static std::string p;
  return p;
}
inline void clear_pending() {
  if (!pending_path().empty()) {
    unlink(pending_path().c_str());
    pending_path().clear();
  }
}

inline void set_case(const std::string &mode, std::vector<int64_t> tokens, std::string describe) {
  arm_watchdog();
  auto &c = current_case();
  c.mode = mode;
  c.tokens = std::move(tokens);
  c.describe = std::move(describe);
  c.message.clear();
  if (presave()) {
    clear_pending();
    c.message = "process died while running this case (sanitizer report in the shard log)";
    pending_path() = write_replay(c, "pending");
    c.message.clear();
  }
}

// Runs the oracle part of a case; a C++ exception escaping from the code under test is a failure of the case
// (rapidcheck's own control-flow exceptions are only thrown by generators, which run outside this guard).
template <class F>
std::string guarded(F &&f) {
  try {
    return f();
  } catch (const std::bad_alloc &) {
    return "exception: std::bad_alloc";
  } catch (const std::exception &e) {
    return std::string("exception: ") + e.what();
  }
}

inline int harness_main(int argc, char **argv, const Harness &h) {
  if (&__sanitizer_set_death_callback && !presave()) __sanitizer_set_death_callback(death_callback);
  std::string mode = env("VERIF_MODE", "");
  for (int i = 1; i < argc; ++i) {
    std::string a = argv[i];
    if (a == "--mode" && i + 1 < argc) {
      mode = argv[++i];
    } else if (a == "--replay" && i + 1 < argc) {
      std::string m;
      std::vector<int64_t> toks;
      if (!read_replay(argv[++i], &m, &toks)) {
        printf("REPLAY-ERROR cannot read %s\n", argv[i]);
        return 2;
      }
      if (!m.empty()) mode = m;  // the mode recorded with the case wins (it names the spec type)
      current_case().tokens.clear();  // no crash dump while replaying
      std::string msg = h.replay(mode, toks);
      if (msg.empty()) {
        printf("REPLAY-PASS\n");
        return 0;
      }
      printf("REPLAY-FAIL %s\n", msg.c_str());
      return 1;
    } else if (a == "--probe" && i + 1 < argc) {
      std::string id = argv[++i];
      std::string msg = h.probe ? h.probe(id) : std::string();
      if (msg.empty()) {
        printf("PROBE-PASS %s\n", id.c_str());
        return 0;
      }
      printf("PROBE-FAIL %s %s\n", id.c_str(), msg.c_str());
      return 1;
    } else if (a == "--enum") {
      std::string msg = h.enumerate(mode);
      if (!msg.empty()) {
        stats().fail_message = msg;
        auto &c = current_case();
        c.message = msg;
        std::string p = write_replay(c, "fail");
        if (!p.empty()) stats().failures.push_back(p);
        printf("ENUM-FAIL %s\n", msg.c_str());
      }
      write_stats();
      return msg.empty() ? 0 : 1;
    }
  }
  // Shrinking is budgeted: rapidcheck has no limit of its own and specs that are generated pick by pick (long names,
  // big value pools) can take hours to shrink. After the first failure the property keeps running for
  // VERIF_SHRINK_SECONDS (default 90); then every further shrink candidate passes at once, so rapidcheck stops at the
  // smallest failing spec found so far (which is what the replay file holds).
  time_t first_failure_at = 0;
  const long shrink_budget = atol(env("VERIF_SHRINK_SECONDS", "90"));
  bool ok = rc::check("property", [&]() {
    if (first_failure_at && time(nullptr) - first_failure_at > shrink_budget) {
      stats().classes["shrink_candidates_skipped_after_budget"]++;
      return;
    }
    std::string msg = h.run(mode);
    clear_pending();
    stats().evaluations++;
    if (!first_failure_at) write_stats_periodically();
    if (!msg.empty()) {
      auto &c = current_case();
      c.message = msg;
      last_failed() = c;
      if (!first_failure_at) first_failure_at = time(nullptr);
      RC_FAIL(msg);
    }
  });
  if (!ok) {
    auto &c = last_failed();
    stats().fail_message = c.message;
    std::string p = write_replay(c, "fail");
    if (!p.empty()) stats().failures.push_back(p);
    printf("FALSIFIED %s replay=%s\n", c.message.c_str(), p.c_str());
  }
  alarm(0);
  current_case().tokens.clear();
  write_stats();
  if (getenv("VERIF_MEMPROFILE") && &__sanitizer_print_memory_profile) __sanitizer_print_memory_profile(95, 12);
  return ok ? 0 : 1;
}

}  // namespace vf

#endif  // VERIF_COMMON_VF_H_
