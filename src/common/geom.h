// Geometry case specs, generator, materialisation into draco objects, reference models and oracles shared by the
// geometry properties (C01, C04, C06, C07, C09, C10, C12, C19, corpus generation).
#ifndef VERIF_COMMON_GEOM_H_
#define VERIF_COMMON_GEOM_H_

#include <algorithm>
#include <cmath>
#include <map>
#include <memory>
#include <string>
#include <vector>

#include "common/vf.h"
#include "draco/attributes/attribute_octahedron_transform.h"
#include "draco/attributes/attribute_quantization_transform.h"
#include "draco/compression/attributes/normal_compression_utils.h"
#include "draco/compression/decode.h"
#include "draco/compression/encode.h"
#include "draco/compression/expert_encode.h"
#include "draco/core/decoder_buffer.h"
#include "draco/core/encoder_buffer.h"
#include "draco/core/verif_hooks.h"
#include "draco/mesh/mesh.h"
#include "draco/metadata/geometry_metadata.h"
#include "draco/point_cloud/point_cloud.h"

namespace vg {
using namespace vf;
using draco::AttributeValueIndex;
using draco::DataType;
using draco::FaceIndex;
using draco::GeometryAttribute;
using draco::PointIndex;

constexpr int kPredUnset = -100;

inline int dt_size(int dt) { return draco::DataTypeLength(static_cast<DataType>(dt)); }

// ---------------------------------------------------------------------------------------------
struct AttOpt {
  int32_t qbits = -1;  // <= 0: SetAttributeQuantization is not called
  uint8_t explicit_q = 0;
  std::vector<float> origin;
  float range = 1.f;
  int32_t pred = kPredUnset;
  template <class A>
  void io(A &a) {
    a(qbits); a(explicit_q); a(origin); a(range); a(pred);
  }
};

struct AttSpec {
  int32_t type = 0;
  int32_t dtype = draco::DT_FLOAT32;
  int32_t ncomp = 3;
  uint8_t normalized = 0;
  uint32_t unique_id = 0;
  uint8_t identity = 0;
  std::vector<uint32_t> map;  // per point (when !identity)
  uint32_t nvalues = 0;
  std::vector<uint8_t> data;
  template <class A>
  void io(A &a) {
    a(type); a(dtype); a(ncomp); a(normalized); a(unique_id); a(identity); a(map); a(nvalues); a(data);
  }
  size_t stride() const { return static_cast<size_t>(ncomp) * dt_size(dtype); }
  uint32_t value_of_point(uint32_t p) const { return identity ? p : map[p]; }
  const uint8_t *value(uint32_t v) const { return data.data() + static_cast<size_t>(v) * stride(); }
  float getf(uint32_t v, int c) const {
    float f;
    memcpy(&f, value(v) + 4 * c, 4);
    return f;
  }
};

struct GeomSpec {
  uint8_t is_mesh = 1;
  uint32_t npoints = 0;
  std::vector<uint32_t> faces;  // 3 point ids per face
  std::vector<AttSpec> atts;
  template <class A>
  void io(A &a) {
    a(is_mesh); a(npoints); a(faces); a(atts);
  }
  size_t nfaces() const { return faces.size() / 3; }
  int pos_att() const {
    for (size_t i = 0; i < atts.size(); ++i)
      if (atts[i].type == GeometryAttribute::POSITION) return static_cast<int>(i);
    return -1;
  }
};

struct OptSpec {
  int32_t api = 1;        // 0 = Encoder (options keyed by attribute type), 1 = ExpertEncoder (by attribute id)
  int32_t method = -1;    // -1 auto, 0 sequential, 1 edgebreaker / kd-tree
  int32_t eb_method = -1; // -1 auto, 0 standard, 2 valence (global option "edgebreaker_method")
  int32_t enc_speed = -1, dec_speed = -1;  // -1: SetSpeedOptions not called
  int32_t builtin_compression = -1;        // -1 unset, 0, 1
  int32_t split_on_seams = -1;             // -1 unset, 0, 1
  int32_t compress_connectivity = -1;      // -1 unset, 0, 1 (sequential mesh)
  uint8_t track = 0;
  uint8_t call_submethod = 0;              // also call the (inert) SetEncodingSubmethod
  std::vector<AttOpt> per_att;             // used when api == 1
  std::vector<AttOpt> per_type;            // 5 entries, used when api == 0
  template <class A>
  void io(A &a) {
    a(api); a(method); a(eb_method); a(enc_speed); a(dec_speed); a(builtin_compression); a(split_on_seams);
    a(compress_connectivity); a(track); a(call_submethod); a(per_att); a(per_type);
  }
  const AttOpt &opt_for(const GeomSpec &g, int ai) const {
    static const AttOpt none;
    if (api == 1) return ai < static_cast<int>(per_att.size()) ? per_att[ai] : none;
    int t = g.atts[ai].type;
    return (t >= 0 && t < static_cast<int>(per_type.size())) ? per_type[t] : none;
  }
  int speed() const {  // EncoderOptions::GetSpeed()
    int m = std::max(enc_speed, dec_speed);
    return m == -1 ? 5 : m;
  }
};

struct CaseSpec {
  GeomSpec g;
  OptSpec o;
  uint32_t skip_mask = 0;  // decoder side: attribute types whose transform is skipped (bit = GeometryAttribute::Type)
  template <class A>
  void io(A &a) {
    a(g); a(o); a(skip_mask);
  }
};

// ---------------------------------------------------------------------------------------------
// Reference quantizer: float32 arithmetic exactly as documented in core/quantization_utils.h
// ("val * (max_q / range)", rounded to nearest by floor(x + 0.5)), and the dequantizer "k * (range / max_q) + min".
struct RefQuant {
  int bits = 0;
  std::vector<float> mins;
  float range = 1.f;
  bool valid = false;
  int32_t maxq() const { return static_cast<int32_t>((1u << bits) - 1); }
  int32_t q(float x, int c) const {
    const float inv_delta = static_cast<float>(maxq()) / range;
    float v = x - mins[c];
    v = v * inv_delta;
    return static_cast<int32_t>(std::floor(v + 0.5f));
  }
  float dq(int32_t k, int c) const {
    const float delta = range / static_cast<float>(maxq());
    float v = static_cast<float>(k) * delta;
    return v + mins[c];
  }
};

// Reference for AttributeQuantizationTransform::ComputeParameters: per-component minimum over *all stored values*
// and the largest per-component extent; 1.0 when the extent is zero; invalid on NaN/inf.
inline RefQuant ref_auto_params(const AttSpec &a, int bits) {
  RefQuant r;
  r.bits = bits;
  r.mins.assign(a.ncomp, 0.f);
  std::vector<float> maxs(a.ncomp, 0.f);
  if (a.nvalues == 0 || bits < 1 || bits > 30) return r;
  for (int c = 0; c < a.ncomp; ++c) r.mins[c] = maxs[c] = a.getf(0, c);
  for (uint32_t v = 0; v < a.nvalues; ++v) {
    for (int c = 0; c < a.ncomp; ++c) {
      const float x = a.getf(v, c);
      if (std::isnan(x)) return r;
      if (x < r.mins[c]) r.mins[c] = x;
      if (x > maxs[c]) maxs[c] = x;
    }
  }
  r.range = 0.f;
  for (int c = 0; c < a.ncomp; ++c) {
    if (std::isnan(r.mins[c]) || std::isinf(r.mins[c]) || std::isnan(maxs[c]) || std::isinf(maxs[c])) return r;
    const float d = maxs[c] - r.mins[c];
    if (d > r.range) r.range = d;
  }
  if (r.range == 0.f) r.range = 1.f;
  r.valid = true;
  return r;
}

// The options layer stores floats as text ("%f", 6 decimals): the value that reaches the encoder is the text
// round trip of what the caller passed. Explicit parameters are generated as fixed points of this map.
inline float option_text_roundtrip(float x) { return std::strtof(std::to_string(x).c_str(), nullptr); }

// ---------------------------------------------------------------------------------------------
// Materialise a spec.
inline std::unique_ptr<draco::PointCloud> build_geometry(const GeomSpec &g) {
  std::unique_ptr<draco::PointCloud> pc;
  draco::Mesh *mesh = nullptr;
  if (g.is_mesh) {
    mesh = new draco::Mesh();
    pc.reset(mesh);
  } else {
    pc.reset(new draco::PointCloud());
  }
  pc->set_num_points(g.npoints);
  if (mesh) {
    for (size_t f = 0; f < g.nfaces(); ++f) {
      draco::Mesh::Face face;
      for (int k = 0; k < 3; ++k) face[k] = PointIndex(g.faces[3 * f + k]);
      mesh->AddFace(face);
    }
  }
  for (const AttSpec &a : g.atts) {
    GeometryAttribute ga;
    ga.Init(static_cast<GeometryAttribute::Type>(a.type), nullptr, static_cast<uint8_t>(a.ncomp),
            static_cast<DataType>(a.dtype), a.normalized != 0, a.stride(), 0);
    const int id = pc->AddAttribute(ga, a.identity != 0, a.nvalues);
    draco::PointAttribute *pa = pc->attribute(id);
    if (a.nvalues > 0) pa->buffer()->Write(0, a.data.data(), a.data.size());
    if (!a.identity) {
      for (uint32_t p = 0; p < g.npoints; ++p) pa->SetPointMapEntry(PointIndex(p), AttributeValueIndex(a.map[p]));
    }
    pa->set_unique_id(a.unique_id);  // AddAttribute overwrites the id with the attribute index
  }
  return pc;
}

struct EncodeResult {
  draco::Status status;
  std::vector<char> bytes;
  size_t reported_points = 0, reported_faces = 0;
  int geometry_type = -1, method = -1;  // from the produced header
  std::vector<std::string> rejected_options;
  std::vector<std::pair<std::string, int64_t>> events;  // code paths the encoder committed to (DRACO_VERIF_EVENT)
  std::string event_class() const {
    std::set<std::string> u;
    for (auto &e : events) u.insert(e.first + "=" + std::to_string(e.second));
    std::string k;
    for (auto &x : u) k += x + ";";
    return k;
  }
};

inline std::vector<std::pair<std::string, int64_t>> *&event_sink() {
  static thread_local std::vector<std::pair<std::string, int64_t>> *sink = nullptr;
  return sink;
}
inline void on_event(const char *tag, int64_t v) {
  if (event_sink() && event_sink()->size() < 4096) event_sink()->emplace_back(tag, v);
}
struct EventCapture {
  explicit EventCapture(std::vector<std::pair<std::string, int64_t>> *dst) {
    event_sink() = dst;
    draco::verif::hooks().event = on_event;
  }
  ~EventCapture() {
    draco::verif::hooks().event = nullptr;
    event_sink() = nullptr;
  }
};

template <class EncT, class KeyFn>
void apply_att_options(EncT &enc, const GeomSpec &g, const OptSpec &o, KeyFn key_of, EncodeResult *res) {
  // key_of(ai) -> key (attribute id or type); options applied once per key
  std::set<int> done;
  for (size_t ai = 0; ai < g.atts.size(); ++ai) {
    const int key = key_of(static_cast<int>(ai));
    if (!done.insert(key).second) continue;
    const AttOpt &ao = o.opt_for(g, static_cast<int>(ai));
    using KeyT = decltype(key_of(0));
    (void)sizeof(KeyT);
    if (ao.qbits > 0) {
      if (ao.explicit_q && !ao.origin.empty()) {
        enc.SetAttributeExplicitQuantization(key_of.cast(key), ao.qbits, static_cast<int>(ao.origin.size()),
                                             ao.origin.data(), ao.range);
      } else {
        enc.SetAttributeQuantization(key_of.cast(key), ao.qbits);
      }
    }
    if (ao.pred != kPredUnset) {
      draco::Status st = enc.SetAttributePredictionScheme(key_of.cast(key), ao.pred);
      if (!st.ok()) res->rejected_options.push_back("prediction_scheme");
    }
  }
}

struct KeyById {
  int operator()(int ai) const { return ai; }
  int32_t cast(int k) const { return k; }
};
struct KeyByType {
  const GeomSpec *g;
  int operator()(int ai) const { return g->atts[ai].type; }
  GeometryAttribute::Type cast(int k) const { return static_cast<GeometryAttribute::Type>(k); }
};

template <class EncT>
void apply_global_options(EncT &enc, const OptSpec &o) {
  if (o.enc_speed >= 0 || o.dec_speed >= 0) enc.SetSpeedOptions(o.enc_speed, o.dec_speed);
  if (o.method >= 0) enc.SetEncodingMethod(o.method);
  if (o.eb_method >= 0) enc.options().SetGlobalInt("edgebreaker_method", o.eb_method);
  if (o.builtin_compression >= 0) enc.options().SetGlobalBool("use_built_in_attribute_compression", o.builtin_compression != 0);
  if (o.split_on_seams >= 0) enc.options().SetGlobalBool("split_mesh_on_seams", o.split_on_seams != 0);
  if (o.compress_connectivity >= 0) enc.options().SetGlobalBool("compress_connectivity", o.compress_connectivity != 0);
  if (o.track) enc.SetTrackEncodedProperties(true);
}

// Configures `enc` (an Encoder) for the spec - shared with the history harness (C06).
inline void configure_encoder(draco::Encoder &enc, const GeomSpec &g, const OptSpec &o, EncodeResult *res) {
  apply_global_options(enc, o);
  apply_att_options(enc, g, o, KeyByType{&g}, res);
}
inline void configure_expert(draco::ExpertEncoder &enc, const GeomSpec &g, const OptSpec &o, EncodeResult *res) {
  apply_global_options(enc, o);
  if (o.call_submethod && o.eb_method >= 0) enc.SetEncodingSubmethod(o.eb_method);
  apply_att_options(enc, g, o, KeyById{}, res);
}

inline void finish_result(draco::EncoderBuffer &buf, EncodeResult *res) {
  res->bytes.assign(buf.data(), buf.data() + buf.size());
  if (res->status.ok() && res->bytes.size() >= 9) {
    res->geometry_type = static_cast<uint8_t>(res->bytes[7]);
    res->method = static_cast<uint8_t>(res->bytes[8]);
  }
}

inline EncodeResult encode_case(const CaseSpec &cs, const draco::PointCloud &pc) {
  EncodeResult res;
  EventCapture capture(&res.events);
  draco::EncoderBuffer buf;
  const draco::Mesh *mesh = cs.g.is_mesh ? static_cast<const draco::Mesh *>(&pc) : nullptr;
  if (cs.o.api == 0) {
    draco::Encoder enc;
    configure_encoder(enc, cs.g, cs.o, &res);
    res.status = mesh ? enc.EncodeMeshToBuffer(*mesh, &buf) : enc.EncodePointCloudToBuffer(pc, &buf);
    res.reported_points = enc.num_encoded_points();
    res.reported_faces = enc.num_encoded_faces();
  } else {
    std::unique_ptr<draco::ExpertEncoder> enc(mesh ? new draco::ExpertEncoder(*mesh) : new draco::ExpertEncoder(pc));
    configure_expert(*enc, cs.g, cs.o, &res);
    res.status = enc->EncodeToBuffer(&buf);
    res.reported_points = enc->num_encoded_points();
    res.reported_faces = enc->num_encoded_faces();
  }
  finish_result(buf, &res);
  return res;
}

// Signature of known finding F19: sequential mesh stream with compressed connectivity (method byte 0) in which
// fewer than 3 bytes per face remain after the face / point counts - the decoder's plausibility check
// `num_faces > remaining_size / 3` rejects it.
inline bool f19_signature(const EncodeResult &er, const CaseSpec &cs) {
  if (er.geometry_type != 1 || er.method != 0 || er.bytes.size() < 12) return false;
  const uint16_t flags = static_cast<uint8_t>(er.bytes[9]) | (static_cast<uint8_t>(er.bytes[10]) << 8);
  if (flags & 0x8000) return false;
  size_t off = 11;
  for (int k = 0; k < 2; ++k) {  // two varints: faces, points
    while (off < er.bytes.size() && (static_cast<uint8_t>(er.bytes[off]) & 0x80)) ++off;
    ++off;
  }
  if (off >= er.bytes.size()) return false;
  const size_t remaining = er.bytes.size() - off;
  return er.bytes[off] == 0 && cs.g.nfaces() > remaining / 3;
}


// ---------------------------------------------------------------------------------------------
// Expected decoded values.
enum LossKind { kLossless = 0, kQuantized = 1, kOctahedral = 2 };

struct Expected {
  std::vector<int> kind;                      // per attribute
  std::vector<RefQuant> quant;                // per attribute (valid when kQuantized)
  std::vector<std::vector<uint8_t>> values;   // per attribute: nvalues * stride expected bytes
  std::vector<std::vector<int32_t>> ints;     // per attribute: quantized integers (kQuantized: ncomp, kOctahedral: 2)
};

// method: 0 sequential, 1 edgebreaker / kd-tree (as written in the stream header)
inline Expected compute_expected(const CaseSpec &cs, int geometry_type, int method) {
  Expected e;
  const GeomSpec &g = cs.g;
  const bool kd = geometry_type == 0 && method == 1;
  e.kind.assign(g.atts.size(), kLossless);
  e.quant.resize(g.atts.size());
  e.values.resize(g.atts.size());
  e.ints.resize(g.atts.size());
  for (size_t ai = 0; ai < g.atts.size(); ++ai) {
    const AttSpec &a = g.atts[ai];
    const AttOpt &ao = cs.o.opt_for(g, static_cast<int>(ai));
    e.values[ai] = a.data;
    if (a.dtype != draco::DT_FLOAT32 || ao.qbits <= 0) continue;
    if (a.type == GeometryAttribute::NORMAL && !kd) {
      e.kind[ai] = kOctahedral;
      draco::OctahedronToolBox tb;
      if (!tb.SetQuantizationBits(ao.qbits) || a.ncomp != 3) continue;  // encoder must have failed
      e.ints[ai].resize(static_cast<size_t>(a.nvalues) * 2);
      for (uint32_t v = 0; v < a.nvalues; ++v) {
        float in[3] = {a.getf(v, 0), a.getf(v, 1), a.getf(v, 2)};
        int32_t s, t;
        tb.FloatVectorToQuantizedOctahedralCoords(in, &s, &t);
        float out[3];
        tb.QuantizedOctahedralCoordsToUnitVector(s, t, out);
        memcpy(e.values[ai].data() + static_cast<size_t>(v) * 12, out, 12);
        e.ints[ai][2 * v] = s;
        e.ints[ai][2 * v + 1] = t;
      }
      continue;
    }
    e.kind[ai] = kQuantized;
    RefQuant rq;
    if (ao.explicit_q && !ao.origin.empty()) {
      rq.bits = ao.qbits;
      rq.mins.assign(a.ncomp, 0.f);
      for (int c = 0; c < a.ncomp && c < static_cast<int>(ao.origin.size()); ++c) rq.mins[c] = ao.origin[c];
      rq.range = ao.range;
      rq.valid = ao.qbits >= 1 && ao.qbits <= 30;
    } else {
      rq = ref_auto_params(a, ao.qbits);
    }
    e.quant[ai] = rq;
    if (!rq.valid) continue;
    e.ints[ai].resize(static_cast<size_t>(a.nvalues) * a.ncomp);
    for (uint32_t v = 0; v < a.nvalues; ++v) {
      for (int c = 0; c < a.ncomp; ++c) {
        const int32_t k = rq.q(a.getf(v, c), c);
        const float x = rq.dq(k, c);
        e.ints[ai][static_cast<size_t>(v) * a.ncomp + c] = k;
        memcpy(e.values[ai].data() + static_cast<size_t>(v) * a.stride() + 4 * c, &x, 4);
      }
    }
  }
  return e;
}

// ---------------------------------------------------------------------------------------------
// Comparison of a decoded geometry with the spec.
struct Interner {
  std::map<std::string, int> ids;
  int id(const std::string &k) {
    auto it = ids.find(k);
    if (it != ids.end()) return it->second;
    int n = static_cast<int>(ids.size());
    ids.emplace(k, n);
    return n;
  }
};

inline std::string hex(const uint8_t *p, size_t n) {
  static const char *d = "0123456789abcdef";
  std::string s;
  for (size_t i = 0; i < n; ++i) {
    s += d[p[i] >> 4];
    s += d[p[i] & 15];
  }
  return s;
}

typedef std::array<int, 3> Tri;
inline Tri canon(Tri t) {  // smallest rotation, orientation kept
  Tri b = t;
  for (int r = 1; r < 3; ++r) {
    Tri c = {t[r], t[(r + 1) % 3], t[(r + 2) % 3]};
    if (c < b) b = c;
  }
  return b;
}

// attribute order: sorted by unique id (input ids are distinct)
inline std::vector<int> atts_by_uid(const GeomSpec &g) {
  std::vector<int> o(g.atts.size());
  for (size_t i = 0; i < o.size(); ++i) o[i] = static_cast<int>(i);
  std::sort(o.begin(), o.end(), [&](int a, int b) { return g.atts[a].unique_id < g.atts[b].unique_id; });
  return o;
}

inline std::string check_attribute_set(const GeomSpec &g, const draco::PointCloud &dec, std::vector<int> *dec_att_of) {
  if (dec.num_attributes() != static_cast<int>(g.atts.size())) {
    return "decoded geometry has " + std::to_string(dec.num_attributes()) + " attributes, input has " +
           std::to_string(g.atts.size());
  }
  dec_att_of->assign(g.atts.size(), -1);
  for (size_t ai = 0; ai < g.atts.size(); ++ai) {
    const AttSpec &a = g.atts[ai];
    const int di = dec.GetAttributeIdByUniqueId(a.unique_id);
    if (di < 0) return "attribute with unique id " + std::to_string(a.unique_id) + " missing after decode";
    const draco::PointAttribute *d = dec.attribute(di);
    if (d->attribute_type() != a.type) return "attribute uid " + std::to_string(a.unique_id) + ": type changed";
    if (d->data_type() != a.dtype) {
      return "attribute uid " + std::to_string(a.unique_id) + ": data type " + std::to_string(d->data_type()) +
             " != " + std::to_string(a.dtype);
    }
    if (d->num_components() != a.ncomp) return "attribute uid " + std::to_string(a.unique_id) + ": component count changed";
    if (d->normalized() != (a.normalized != 0)) return "attribute uid " + std::to_string(a.unique_id) + ": normalized flag changed";
    if (d->byte_stride() != static_cast<int64_t>(a.stride())) return "attribute uid " + std::to_string(a.unique_id) + ": unexpected byte stride";
    (*dec_att_of)[ai] = di;
  }
  return "";
}

inline std::string input_point_key(const GeomSpec &g, const Expected &e, const std::vector<int> &order, uint32_t p) {
  std::string k;
  for (int ai : order) {
    const AttSpec &a = g.atts[ai];
    const uint32_t v = a.value_of_point(p);
    k.append(reinterpret_cast<const char *>(e.values[ai].data() + static_cast<size_t>(v) * a.stride()), a.stride());
  }
  return k;
}
inline std::string decoded_point_key(const GeomSpec &g, const draco::PointCloud &dec, const std::vector<int> &order,
                                     const std::vector<int> &dec_att_of, uint32_t p) {
  std::string k;
  uint8_t buf[8 * 16 * 2];
  for (int ai : order) {
    const draco::PointAttribute *d = dec.attribute(dec_att_of[ai]);
    d->GetMappedValue(PointIndex(p), buf);
    k.append(reinterpret_cast<const char *>(buf), g.atts[ai].stride());
  }
  return k;
}

inline std::string describe_point(const GeomSpec &g, const std::vector<int> &order, const std::string &key) {
  std::string s;
  size_t off = 0;
  for (int ai : order) {
    const AttSpec &a = g.atts[ai];
    s += "[uid" + std::to_string(a.unique_id) + ":" + hex(reinterpret_cast<const uint8_t *>(key.data()) + off, a.stride()) + "]";
    off += a.stride();
  }
  return s;
}

// Full geometric comparison. geometry_type/method from the stream header.
inline std::string compare_geometry(const CaseSpec &cs, const Expected &e, const draco::PointCloud &dec,
                                    int geometry_type, int method) {
  const GeomSpec &g = cs.g;
  std::vector<int> dec_att_of;
  std::string err = check_attribute_set(g, dec, &dec_att_of);
  if (!err.empty()) return err;
  const std::vector<int> order = atts_by_uid(g);
  const bool sequential = method == 0;
  const draco::Mesh *dm = geometry_type == 1 ? static_cast<const draco::Mesh *>(&dec) : nullptr;
  if (g.is_mesh != (dm != nullptr)) return "geometry type changed";
  Interner in;
  if (sequential) {
    // order-preserving: point i <-> point i, face f <-> face f
    if (dec.num_points() != g.npoints) {
      return "sequential: decoded " + std::to_string(dec.num_points()) + " points, input " + std::to_string(g.npoints);
    }
    for (uint32_t p = 0; p < g.npoints; ++p) {
      const std::string a = input_point_key(g, e, order, p), b = decoded_point_key(g, dec, order, dec_att_of, p);
      if (a != b) {
        return "sequential: point " + std::to_string(p) + " decoded as " + describe_point(g, order, b) + ", expected " +
               describe_point(g, order, a);
      }
    }
    if (dm) {
      if (dm->num_faces() != g.nfaces()) {
        return "sequential: decoded " + std::to_string(dm->num_faces()) + " faces, input " + std::to_string(g.nfaces());
      }
      for (size_t f = 0; f < g.nfaces(); ++f) {
        const auto &face = dm->face(FaceIndex(static_cast<uint32_t>(f)));
        for (int k = 0; k < 3; ++k) {
          if (face[k].value() != g.faces[3 * f + k]) return "sequential: face " + std::to_string(f) + " changed";
        }
      }
    }
    return "";
  }
  if (!dm) {
    // kd-tree point cloud: multiset of points
    if (dec.num_points() != g.npoints) {
      return "kd-tree: decoded " + std::to_string(dec.num_points()) + " points, input " + std::to_string(g.npoints);
    }
    std::vector<std::string> a(g.npoints), b(g.npoints);
    for (uint32_t p = 0; p < g.npoints; ++p) {
      a[p] = input_point_key(g, e, order, p);
      b[p] = decoded_point_key(g, dec, order, dec_att_of, p);
    }
    std::sort(a.begin(), a.end());
    std::sort(b.begin(), b.end());
    for (uint32_t p = 0; p < g.npoints; ++p) {
      if (a[p] != b[p]) {
        return "kd-tree: multiset of points differs, e.g. sorted position " + std::to_string(p) + " decoded " +
               describe_point(g, order, b[p]) + " expected " + describe_point(g, order, a[p]);
      }
    }
    return "";
  }
  // Edgebreaker: multiset of triangles with per-corner values; T_in - Deg <= T_dec <= T_in
  const int pa = g.pos_att();
  std::vector<Tri> must, may, got;
  for (size_t f = 0; f < g.nfaces(); ++f) {
    Tri t;
    uint32_t pv[3];
    for (int k = 0; k < 3; ++k) {
      const uint32_t p = g.faces[3 * f + k];
      t[k] = in.id(input_point_key(g, e, order, p));
      pv[k] = pa >= 0 ? g.atts[pa].value_of_point(p) : p;
    }
    const bool deg = pv[0] == pv[1] || pv[1] == pv[2] || pv[0] == pv[2];
    (deg ? may : must).push_back(canon(t));
  }
  for (uint32_t f = 0; f < dm->num_faces(); ++f) {
    const auto &face = dm->face(FaceIndex(f));
    Tri t;
    for (int k = 0; k < 3; ++k) {
      if (face[k].value() >= dec.num_points()) return "decoded face refers to a point that does not exist";
      t[k] = in.id(decoded_point_key(g, dec, order, dec_att_of, face[k].value()));
    }
    got.push_back(canon(t));
  }
  std::sort(must.begin(), must.end());
  std::sort(may.begin(), may.end());
  std::sort(got.begin(), got.end());
  // got - must must be a sub-multiset of may
  std::vector<Tri> extra, missing;
  std::set_difference(got.begin(), got.end(), must.begin(), must.end(), std::back_inserter(extra));
  std::set_difference(must.begin(), must.end(), got.begin(), got.end(), std::back_inserter(missing));
  auto tri_str = [&](const Tri &t) {
    std::string s = "(";
    for (int k = 0; k < 3; ++k) {
      for (auto &kv : in.ids)
        if (kv.second == t[k]) s += describe_point(g, order, kv.first);
      s += k < 2 ? " , " : ")";
    }
    return s;
  };
  if (!missing.empty()) {
    return "edgebreaker: " + std::to_string(missing.size()) + " non-degenerate input triangle(s) missing after decode, e.g. " +
           tri_str(missing[0]);
  }
  std::vector<Tri> bad;
  std::set_difference(extra.begin(), extra.end(), may.begin(), may.end(), std::back_inserter(bad));
  if (!bad.empty()) {
    return "edgebreaker: " + std::to_string(bad.size()) + " decoded triangle(s) not in the input, e.g. " + tri_str(bad[0]);
  }
  return "";
}

// ---------------------------------------------------------------------------------------------
// Decode helpers.
struct DecodeResult {
  draco::Status status;
  std::unique_ptr<draco::PointCloud> geom;
  int geometry_type = -1;
};

inline DecodeResult decode_bytes(const std::vector<char> &bytes, const std::vector<int> &skip_types = {},
                                 int entry = 0) {
  DecodeResult r;
  // exact-size heap copy so that over-reads are visible to ASan
  std::unique_ptr<char[]> blk(new char[bytes.size() ? bytes.size() : 1]);
  if (!bytes.empty()) memcpy(blk.get(), bytes.data(), bytes.size());
  draco::DecoderBuffer db;
  db.Init(blk.get(), bytes.size());
  auto type = draco::Decoder::GetEncodedGeometryType(&db);
  if (!type.ok()) {
    r.status = type.status();
    return r;
  }
  r.geometry_type = type.value() == draco::TRIANGULAR_MESH ? 1 : 0;
  draco::Decoder dec;
  for (int t : skip_types) dec.SetSkipAttributeTransform(static_cast<GeometryAttribute::Type>(t));
  if (r.geometry_type == 1 && entry == 0) {
    auto m = dec.DecodeMeshFromBuffer(&db);
    r.status = m.status();
    if (m.ok()) r.geom = std::move(m).value();
  } else if (r.geometry_type == 0 && entry == 0) {
    auto m = dec.DecodePointCloudFromBuffer(&db);
    r.status = m.status();
    if (m.ok()) r.geom = std::move(m).value();
  } else if (r.geometry_type == 1) {
    std::unique_ptr<draco::Mesh> m(new draco::Mesh());
    r.status = dec.DecodeBufferToGeometry(&db, m.get());
    if (r.status.ok()) r.geom = std::move(m);
  } else {
    std::unique_ptr<draco::PointCloud> m(new draco::PointCloud());
    r.status = dec.DecodeBufferToGeometry(&db, m.get());
    if (r.status.ok()) r.geom = std::move(m);
  }
  return r;
}

// ---------------------------------------------------------------------------------------------
// Ordered digest of a decoded geometry (C05 / C06 / C19).
struct Digest {
  uint64_t a = 1469598103934665603ull, b = 0x9e3779b97f4a7c15ull;
  void bytes(const void *p, size_t n) {
    const uint8_t *c = static_cast<const uint8_t *>(p);
    for (size_t i = 0; i < n; ++i) {
      a = (a ^ c[i]) * 1099511628211ull;
      b = (b + c[i] + 1) * 0xff51afd7ed558ccdull;
      b ^= b >> 29;
    }
  }
  template <class T>
  void val(T v) {
    bytes(&v, sizeof v);
  }
  std::string hex() const {
    char buf[40];
    snprintf(buf, sizeof buf, "%016llx%016llx", (unsigned long long)a, (unsigned long long)b);
    return buf;
  }
};

inline void digest_metadata(Digest &d, const draco::Metadata &m) {
  d.val<uint32_t>(static_cast<uint32_t>(m.entries().size()));
  for (auto &kv : m.entries()) {
    d.val<uint32_t>(static_cast<uint32_t>(kv.first.size()));
    d.bytes(kv.first.data(), kv.first.size());
    d.val<uint32_t>(static_cast<uint32_t>(kv.second.data().size()));
    d.bytes(kv.second.data().data(), kv.second.data().size());
  }
  d.val<uint32_t>(static_cast<uint32_t>(m.sub_metadatas().size()));
  for (auto &kv : m.sub_metadatas()) {
    d.val<uint32_t>(static_cast<uint32_t>(kv.first.size()));
    d.bytes(kv.first.data(), kv.first.size());
    digest_metadata(d, *kv.second);
  }
}

// ordered digest: attribute descriptors in decoded order, point count, faces in order, for every point in order the
// value bytes of every attribute, metadata
inline std::string ordered_digest(const draco::PointCloud &pc, const draco::Mesh *mesh) {
  Digest d;
  d.val<int32_t>(pc.num_attributes());
  for (int a = 0; a < pc.num_attributes(); ++a) {
    const draco::PointAttribute *att = pc.attribute(a);
    d.val<int32_t>(att->attribute_type());
    d.val<int32_t>(att->data_type());
    d.val<int32_t>(att->num_components());
    d.val<int32_t>(att->normalized());
    d.val<uint32_t>(att->unique_id());
  }
  d.val<uint32_t>(pc.num_points());
  if (mesh) {
    d.val<uint32_t>(mesh->num_faces());
    for (uint32_t f = 0; f < mesh->num_faces(); ++f)
      for (int k = 0; k < 3; ++k) d.val<uint32_t>(mesh->face(FaceIndex(f))[k].value());
  }
  std::vector<uint8_t> buf(2048);
  for (uint32_t p = 0; p < pc.num_points(); ++p) {
    for (int a = 0; a < pc.num_attributes(); ++a) {
      const draco::PointAttribute *att = pc.attribute(a);
      att->GetMappedValue(PointIndex(p), buf.data());
      d.bytes(buf.data(), att->byte_stride());
    }
  }
  if (const draco::GeometryMetadata *gm = pc.GetMetadata()) {
    d.val<uint32_t>(static_cast<uint32_t>(gm->attribute_metadatas().size()));
    for (auto &am : gm->attribute_metadatas()) {
      d.val<uint32_t>(am->att_unique_id());
      digest_metadata(d, *am);
    }
    digest_metadata(d, *gm);
  } else {
    d.val<uint32_t>(0xffffffffu);
  }
  return d.hex();
}


// ---------------------------------------------------------------------------------------------
// Generator.
struct GenCfg {
  bool thorough = false;
  int mesh_pct = 70;          // probability of a mesh (vs point cloud)
  int quant_pct = 60;         // probability that a float attribute is quantized
  bool lossy_focus = false;   // C04/C10/C12: every case has >= 1 quantized float attribute
  bool seam_focus = false;    // C09: weight seams / non-manifold / degenerate / isolated
  int max_extra_atts = 4;
  bool allow_large = true;
  bool allow_wide = true;   // quantization 25..30 bits / 32-bit integers beyond 2^24 (harnesses that re-combine
                            // options and geometries after generation switch it off, see gen_case)
  bool allow_lattice = true;  // 3 % large regular lattice patches (very compressible streams)
};

struct Topo {
  int nv = 0;
  std::vector<std::array<int, 3>> f;
};

inline void topo_grid(Topo &t, int n, int m, bool wrap_u, bool wrap_v) {
  const int base = t.nv;
  const int cu = wrap_u ? n : n + 1, cv = wrap_v ? m : m + 1;
  auto id = [&](int i, int j) { return base + (i % cu) * cv + (j % cv); };
  for (int i = 0; i < n; ++i) {
    for (int j = 0; j < m; ++j) {
      const int a = id(i, j), b = id(i + 1, j), c = id(i + 1, j + 1), d = id(i, j + 1);
      if (P(50)) {
        t.f.push_back({a, b, c});
        t.f.push_back({a, c, d});
      } else {
        t.f.push_back({a, b, d});
        t.f.push_back({b, c, d});
      }
    }
  }
  t.nv += cu * cv;
}

inline void topo_fan(Topo &t, int k, bool closed) {
  const int c = t.nv;
  for (int i = 0; i < k; ++i) {
    if (!closed && i == k - 1) break;
    t.f.push_back({c, c + 1 + i, c + 1 + (i + 1) % k});
  }
  t.nv += k + 1;
}

inline void topo_soup(Topo &t, int nv, int nf) {
  const int base = t.nv;
  for (int i = 0; i < nf; ++i) {
    std::array<int, 3> f;
    if (!t.f.empty() && P(45)) {
      // reuse an existing edge (possibly creating an edge with > 2 faces, or a mirrored face)
      const auto &g = t.f[R(0, static_cast<int>(t.f.size()) - 1)];
      const int k = R(0, 2);
      f = {g[(k + 1) % 3], g[k], base + R(0, nv - 1)};
      if (P(15)) std::swap(f[0], f[1]);
    } else {
      f = {base + R(0, nv - 1), base + R(0, nv - 1), base + R(0, nv - 1)};
    }
    t.f.push_back(f);
  }
  t.nv += nv;
}

inline void topo_closed(Topo &t) {
  const int b = t.nv;
  switch (W({30, 30, 25, 15})) {
    case 0:  // tetrahedron
      for (auto f : std::vector<std::array<int, 3>>{{0, 1, 2}, {0, 3, 1}, {1, 3, 2}, {0, 2, 3}}) t.f.push_back({b + f[0], b + f[1], b + f[2]});
      t.nv += 4;
      break;
    case 1:  // octahedron
      for (auto f : std::vector<std::array<int, 3>>{{0, 2, 4}, {2, 1, 4}, {1, 3, 4}, {3, 0, 4}, {2, 0, 5}, {1, 2, 5}, {3, 1, 5}, {0, 3, 5}})
        t.f.push_back({b + f[0], b + f[1], b + f[2]});
      t.nv += 6;
      break;
    case 2:  // torus
      topo_grid(t, R(3, 6), R(3, 6), true, true);
      break;
    default:  // cylinder
      topo_grid(t, R(3, 7), R(1, 5), true, false);
  }
}

inline Topo gen_topology(const GenCfg &cfg, std::vector<std::string> *classes) {
  Topo t;
  const int sc = cfg.allow_large ? W({14, 44, 38, cfg.thorough ? 4 : 2, cfg.thorough ? 1 : 0}) : W({14, 46, 40});
  auto one = [&](int sizeclass) {
    const int kind = W({28, 14, 8, 8, 26, 16});
    const int lim = sizeclass == 0 ? 1 : sizeclass == 1 ? 4 : sizeclass == 2 ? 9 : 40;
    switch (kind) {
      case 0: topo_grid(t, R(1, lim), R(1, lim), false, false); classes->push_back("topo_grid"); break;
      case 1: topo_closed(t); classes->push_back("topo_closed"); break;
      case 2: topo_fan(t, R(3, 3 + 2 * lim), P(50)); classes->push_back("topo_fan"); break;
      case 3: topo_grid(t, R(1, 3 * lim), 1, false, false); classes->push_back("topo_strip"); break;
      case 4: {
        const int nv = R(3, 3 + lim * lim / 2 + lim);
        topo_soup(t, nv, R(1, 2 * nv));
        classes->push_back("topo_soup");
        break;
      }
      default: {
        const int nv = R(1, 5);
        topo_soup(t, nv, R(1, 4));
        classes->push_back("topo_tiny");
      }
    }
  };
  if (sc == 3) {
    topo_grid(t, R(23, 40), R(23, 38), P(20), P(20));  // 1000..3000 faces
    classes->push_back("size_1000_3000_faces");
  } else if (sc == 4) {
    topo_grid(t, R(130, 190), R(130, 190), false, false);  // 17k..36k vertices, up to 72k faces; > 65535 needs soup points
    classes->push_back("size_huge");
  } else {
    one(sc);
    if (P(18)) {
      one(std::min(sc, 1));
      classes->push_back("multi_component");
      if (P(40) && t.nv > 1) {  // weld two vertices: bow-tie / pinched components
        const int a = R(0, t.nv - 1), b = R(0, t.nv - 1);
        for (auto &f : t.f)
          for (auto &v : f)
            if (v == b) v = a;
        classes->push_back("mut_weld");
      }
    }
  }
  // mutations
  const int mp = cfg.seam_focus ? 22 : 12;
  auto rf = [&]() { return R(0, static_cast<int>(t.f.size()) - 1); };
  if (!t.f.empty() && sc < 3) {
    if (P(mp)) { t.f.push_back(t.f[rf()]); classes->push_back("mut_duplicate_face"); }
    if (P(mp)) { auto f = t.f[rf()]; t.f.push_back({f[1], f[0], f[2]}); classes->push_back("mut_mirrored_face"); }
    if (P(mp)) { auto &f = t.f[rf()]; f[R(1, 2)] = f[0]; classes->push_back("mut_degenerate_face"); }
    if (P(mp)) {
      const auto f = t.f[rf()];
      const int k = R(0, 2);
      int third = P(50) ? t.nv++ : R(0, t.nv - 1);
      t.f.push_back({f[k], f[(k + 1) % 3], third});
      classes->push_back("mut_face_on_existing_edge");
    }
    if (P(mp)) { auto &f = t.f[rf()]; std::swap(f[0], f[1]); classes->push_back("mut_flip_orientation"); }
    if (P(mp) && t.f.size() > 1) {
      const int k = R(1, std::max(1, static_cast<int>(t.f.size()) / 3));
      for (int i = 0; i < k && t.f.size() > 1; ++i) t.f.erase(t.f.begin() + rf());
      classes->push_back("mut_delete_faces");
    }
    if (P(8) && t.nv > 1) {
      const int a = R(0, t.nv - 1), b = R(0, t.nv - 1);
      for (auto &f : t.f)
        for (auto &v : f)
          if (v == b) v = a;
      classes->push_back("mut_weld");
    }
  }
  if (!t.f.empty()) {
    if (P(35)) {  // shuffle faces (Fisher-Yates with generated picks on small meshes, seeded on large)
      if (t.f.size() <= 200) {
        for (size_t i = t.f.size(); i > 1; --i) std::swap(t.f[i - 1], t.f[R(0, static_cast<int>(i) - 1)]);
      } else {
        SplitMix sm(U64());
        for (size_t i = t.f.size(); i > 1; --i) std::swap(t.f[i - 1], t.f[sm.below(i)]);
      }
      classes->push_back("mut_shuffle_faces");
    }
    if (P(30)) {
      SplitMix sm(U64());
      for (auto &f : t.f) {
        const int r = static_cast<int>(sm.below(3));
        f = {f[r], f[(r + 1) % 3], f[(r + 2) % 3]};
      }
      classes->push_back("mut_rotate_corners");
    }
  }
  if (P(cfg.seam_focus ? 25 : 12)) {
    t.nv += R(1, 3);
    classes->push_back("isolated_position_entries");
  }
  return t;
}

// value generation -----------------------------------------------------------------------------
inline void put_scalar(std::vector<uint8_t> &d, int dtype, int64_t iv, double fv) {
  switch (dtype) {
    case draco::DT_INT8: { int8_t x = static_cast<int8_t>(iv); d.push_back(static_cast<uint8_t>(x)); break; }
    case draco::DT_UINT8: case draco::DT_BOOL: { d.push_back(static_cast<uint8_t>(iv)); break; }
    case draco::DT_INT16: case draco::DT_UINT16: { uint16_t x = static_cast<uint16_t>(iv); d.insert(d.end(), reinterpret_cast<uint8_t *>(&x), reinterpret_cast<uint8_t *>(&x) + 2); break; }
    case draco::DT_INT32: case draco::DT_UINT32: { uint32_t x = static_cast<uint32_t>(iv); d.insert(d.end(), reinterpret_cast<uint8_t *>(&x), reinterpret_cast<uint8_t *>(&x) + 4); break; }
    case draco::DT_INT64: case draco::DT_UINT64: { uint64_t x = static_cast<uint64_t>(iv); d.insert(d.end(), reinterpret_cast<uint8_t *>(&x), reinterpret_cast<uint8_t *>(&x) + 8); break; }
    case draco::DT_FLOAT32: { float x = static_cast<float>(fv); d.insert(d.end(), reinterpret_cast<uint8_t *>(&x), reinterpret_cast<uint8_t *>(&x) + 4); break; }
    default: { double x = fv; d.insert(d.end(), reinterpret_cast<uint8_t *>(&x), reinterpret_cast<uint8_t *>(&x) + 8); }
  }
}

struct ValueGen {
  int dtype;
  bool quantized;
  bool normal;
  bool bulk;
  SplitMix sm;
  int iclass;          // integer magnitude class
  double offset, scale;  // float classes
  int fclass;
  int wide_bits = 20;
  ValueGen(int dt, bool q, bool nrm, bool bulk_, bool thorough = false, bool allow_wide = true)
      : dtype(dt), quantized(q), normal(nrm), bulk(bulk_), sm(U64()) {
    if (thorough && P(4)) wide_bits = 25;
    if (!open_finding("E1") && allow_wide) wide_bits = pick({20, 20, 25, 29, 29, 31});
    if (getenv("VERIF_WIDE_BITS")) wide_bits = atoi(getenv("VERIF_WIDE_BITS"));
    iclass = W({45, 30, 25});
    fclass = W({40, 25, 20, 15});
    static const double offs[] = {0, 0, 0, 1e3, 1e7, -5e4, 0.5};
    offset = offs[R(0, 6)];
    const int ex = R(-6, 9);
    scale = std::pow(10.0, ex) * (1 + R(0, 8));
    if (!quantized) { offset = P(70) ? 0 : offset; }
  }
  int ri(int lo, int hi) { return bulk ? sm.range(lo, hi) : R(lo, hi); }
  int64_t ri64(int64_t lo, int64_t hi) { return bulk ? lo + static_cast<int64_t>(sm.below(static_cast<uint64_t>(hi - lo) + 1)) : R64(lo, hi); }
  void gen(std::vector<uint8_t> &d) {
    const bool is_float = dtype == draco::DT_FLOAT32 || dtype == draco::DT_FLOAT64;
    if (!is_float) {
      int64_t lo, hi;
      switch (dtype) {
        case draco::DT_INT8: lo = -128; hi = 127; break;
        case draco::DT_UINT8: lo = 0; hi = 255; break;
        case draco::DT_BOOL: lo = 0; hi = 1; break;
        case draco::DT_INT16: lo = -32768; hi = 32767; break;
        case draco::DT_UINT16: lo = 0; hi = 65535; break;
        // 32-bit values are kept inside +-2^wide_bits: the symbol coder's entropy estimate allocates and scans
        // O(largest symbol) counters (4 GB and seconds at 2^30), and beyond 2^30 the integer coders meet the
        // 32-bit extreme-range defects E1/E2 (see DESIGN.md section 4); counted by the caller.
        case draco::DT_INT32: lo = -(1ll << wide_bits); hi = (1ll << wide_bits) - 1; break;
        case draco::DT_UINT32: lo = 0; hi = (1ll << (wide_bits + 1)) - 1; break;
        case draco::DT_INT64: lo = INT64_MIN / 2; hi = INT64_MAX / 2; break;
        default: lo = 0; hi = INT64_MAX; break;
      }
      int64_t v;
      if (iclass == 0) {
        v = ri(-6, 9);
      } else if (iclass == 1) {
        v = ri(-300, 300);
      } else {
        const int c = ri(0, 9);
        v = c == 0 ? lo : c == 1 ? hi : c == 2 ? 0 : ri64(lo, hi);
      }
      v = std::max(lo, std::min(hi, v));
      put_scalar(d, dtype, v, 0);
      return;
    }
    double x;
    if (normal) {
      x = (ri(0, 2000) - 1000) / 1000.0;
      if (fclass == 3) x = ri(-1, 1);
    } else if (quantized) {
      const double u = fclass == 0 ? ri(0, 16) / 16.0 : ri(0, 1 << 20) / static_cast<double>(1 << 20);
      x = offset + scale * u;
    } else {
      switch (fclass) {
        case 0: x = ri(-4, 4); break;
        case 1: x = offset + scale * (ri(0, 1 << 20) / static_cast<double>(1 << 20)); break;
        case 2: x = ri(-4, 4) * 0.25; break;
        default: {
          // arbitrary bit patterns (NaN payloads, infinities, denormals, -0.0) - lossless attributes only
          if (dtype == draco::DT_FLOAT32) {
            uint32_t b = bulk ? static_cast<uint32_t>(sm.next()) : U32();
            const int c = ri(0, 5);
            if (c == 0) b = 0x80000000u;
            if (c == 1) b = 0x7fc00000u | (b & 0xffff);
            if (c == 2) b = 0x7f800000u;
            float f;
            memcpy(&f, &b, 4);
            d.insert(d.end(), reinterpret_cast<uint8_t *>(&f), reinterpret_cast<uint8_t *>(&f) + 4);
            return;
          }
          x = -0.0;
        }
      }
    }
    put_scalar(d, dtype, 0, x);
  }
};

inline int gen_dtype(bool favour_float) {
  static const int kTypes[] = {draco::DT_FLOAT32, draco::DT_UINT8, draco::DT_INT8, draco::DT_UINT16, draco::DT_INT16,
                               draco::DT_UINT32, draco::DT_INT32, draco::DT_INT64, draco::DT_UINT64, draco::DT_FLOAT64,
                               draco::DT_BOOL};
  const int i = favour_float ? W({62, 8, 4, 5, 5, 5, 5, 1, 1, 2, 2}) : W({34, 14, 7, 9, 9, 9, 9, 2, 2, 3, 2});
  return kTypes[i];
}

inline uint32_t gen_unique_id(std::set<uint32_t> &used, uint32_t fallback) {
  static const uint32_t kIds[] = {0, 1, 2, 3, 4, 5, 7, 127, 128, 129, 255, 256, 16383, 16384, 65535, 65536, 0x7fffffffu, 0xfffffffeu, 0xffffffffu};
  for (int tries = 0; tries < 8; ++tries) {
    uint32_t id = P(60) ? fallback + static_cast<uint32_t>(R(0, 3)) : kIds[R(0, 18)];
    if (used.insert(id).second) return id;
  }
  uint32_t id = 1000 + fallback;
  while (!used.insert(id).second) ++id;
  return id;
}

inline AttOpt gen_att_opt(const GenCfg &cfg, int type, bool force_q) {
  AttOpt o;
  if (force_q || P(cfg.quant_pct)) {
    // The symbol coder's entropy estimate costs O(largest symbol) memory and time (4 GB / ~50 s under ASan at
    // 2^30), and quantized integers span the full 2^q range, so wide quantizations are made rare and capped at 26
    // bits here; 27..30 bits are reached through explicit boxes with the data near the origin (gen_explicit_box).
    const int qc = W({18, 47, 25, 8, 2});
    // With finding E1 fixed the estimate is skipped for values above 18 bits, so 25..30 bits are generated in both
    // tiers (gen_case keeps such cases away from the constrained multi-parallelogram scheme, whose entropy tracker
    // still allocates O(largest correction)).
    const int hi = open_finding("E1") ? (cfg.thorough ? R(25, 26) : R(22, 24)) : cfg.allow_wide ? R(25, 30) : R(22, 24);
    o.qbits = qc == 0 ? R(1, 8) : qc == 1 ? R(9, 16) : qc == 2 ? R(17, 21) : qc == 3 ? R(22, 24) : hi;
  }
  if (P(30)) {
    static const int kPreds[] = {-2, 0, 1, 4, 5, 6, 2, 3, 7, -1};
    o.pred = kPreds[W({14, 18, 18, 18, 10, 10, 3, 3, 3, 3})];
  }
  (void)type;
  return o;
}

// Fill explicit quantization for attribute `a` (values must lie inside the box). Returns false when no valid
// box exists after the options layer's text round trip.
inline bool gen_explicit_box(const AttSpec &a, AttOpt *o) {
  RefQuant r = ref_auto_params(a, 8);
  if (!r.valid) return false;
  const float margin = static_cast<float>(R(0, 4)) * 0.125f * r.range;
  o->origin.assign(a.ncomp, 0.f);
  float need = 0.f;
  for (int c = 0; c < a.ncomp; ++c) {
    float org = option_text_roundtrip(r.mins[c] - margin);
    if (option_text_roundtrip(org) != org) return false;
    // the text round trip may move the origin above the minimum: step down until it is not
    int guard = 0;
    while (org > r.mins[c] && guard++ < 4) org = option_text_roundtrip(std::nextafterf(org, -INFINITY) - 1e-6f);
    if (org > r.mins[c] || !std::isfinite(org)) return false;
    o->origin[c] = org;
    float mx = org;
    for (uint32_t v = 0; v < a.nvalues; ++v) mx = std::max(mx, a.getf(v, c));
    need = std::max(need, mx - org);
  }
  float range = option_text_roundtrip(need * (1.f + 0.25f * static_cast<float>(R(0, 3))) + 1e-6f);
  if (!(range > 0) || !std::isfinite(range) || option_text_roundtrip(range) != range) return false;
  for (int c = 0; c < a.ncomp; ++c) {
    for (uint32_t v = 0; v < a.nvalues; ++v) {
      const float x = a.getf(v, c);
      if (!(x >= o->origin[c]) || !(x - o->origin[c] <= range)) return false;
    }
  }
  o->range = range;
  o->explicit_q = 1;
  return true;
}

// A large regular lattice patch with smooth values: the most compressible input there is (connectivity and
// corrections cost almost nothing per face), >= 1000 faces so that the valence Edgebreaker coder is selected at low
// speeds. Reaches the decoders' plausibility guards that relate counts to the remaining stream size.
inline CaseSpec gen_lattice_case(const GenCfg &cfg, std::vector<std::string> *classes) {
  CaseSpec cs;
  GeomSpec &g = cs.g;
  OptSpec &o = cs.o;
  g.is_mesh = 1;
  // half of the patches are exact integer lattices: 2^k - 1 cells per side quantized to k bits (step 1), flat - every
  // correction is zero and the stream shrinks to a few bytes per thousand faces
  const bool exact = P(50);
  const int kbits = exact ? (cfg.thorough ? R(5, 7) : R(5, 6)) : 0;
  const int n = exact ? (1 << kbits) - 1 : R(23, cfg.thorough ? 120 : 40), m = exact ? n : R(23, cfg.thorough ? 120 : 40);
  const int flat = exact ? 1 : P(60);
  AttSpec pos;
  pos.type = GeometryAttribute::POSITION;
  pos.dtype = draco::DT_FLOAT32;
  pos.ncomp = 3;
  pos.identity = 1;
  pos.unique_id = 0;
  pos.nvalues = static_cast<uint32_t>((n + 1) * (m + 1));
  for (int i = 0; i <= n; ++i)
    for (int j = 0; j <= m; ++j) {
      put_scalar(pos.data, draco::DT_FLOAT32, 0, i);
      put_scalar(pos.data, draco::DT_FLOAT32, 0, j);
      put_scalar(pos.data, draco::DT_FLOAT32, 0, flat ? 0 : (i + j) % 3);
    }
  g.npoints = pos.nvalues;
  for (int i = 0; i < n; ++i)
    for (int j = 0; j < m; ++j) {
      const uint32_t a = i * (m + 1) + j, b = (i + 1) * (m + 1) + j, c = (i + 1) * (m + 1) + j + 1, d = i * (m + 1) + j + 1;
      g.faces.insert(g.faces.end(), {a, b, c, a, c, d});
    }
  g.atts.push_back(pos);
  o.per_type.resize(5);
  AttOpt q;
  q.qbits = exact ? kbits : R(6, 12);
  if (!exact && P(40)) {
    AttSpec tc;
    tc.type = GeometryAttribute::TEX_COORD;
    tc.dtype = draco::DT_FLOAT32;
    tc.ncomp = 2;
    tc.identity = 1;
    tc.unique_id = 1;
    tc.nvalues = pos.nvalues;
    for (int i = 0; i <= n; ++i)
      for (int j = 0; j <= m; ++j) {
        put_scalar(tc.data, draco::DT_FLOAT32, 0, i / static_cast<double>(n));
        put_scalar(tc.data, draco::DT_FLOAT32, 0, j / static_cast<double>(m));
      }
    g.atts.push_back(tc);
    o.per_type[GeometryAttribute::TEX_COORD] = q;
  }
  o.per_type[GeometryAttribute::POSITION] = q;
  o.per_att.assign(g.atts.size(), q);
  o.api = P(50);
  o.method = P(70) ? -1 : 1;
  o.eb_method = W({60, 10, 30}) == 0 ? -1 : (P(30) ? 0 : 2);
  o.enc_speed = o.dec_speed = P(80) ? R(0, 4) : R(5, 9);
  o.track = P(50);
  cs.skip_mask = static_cast<uint32_t>(R(0, 31));
  classes->push_back(exact ? "lattice_patch_exact_integer_grid" : "lattice_patch_1000plus_faces");
  return cs;
}

inline CaseSpec gen_case(const GenCfg &cfg, std::vector<std::string> *classes) {
  if (cfg.allow_lattice && P(3)) return gen_lattice_case(cfg, classes);
  CaseSpec cs;
  GeomSpec &g = cs.g;
  OptSpec &o = cs.o;
  g.is_mesh = P(cfg.mesh_pct);
  o.api = P(50);
  // -------- attribute descriptors
  struct AttPlan { int type, dtype, ncomp; bool normalized; int mapmode; };
  std::vector<AttPlan> plan;
  {
    AttPlan p;
    p.type = GeometryAttribute::POSITION;
    p.dtype = P(85) ? draco::DT_FLOAT32 : gen_dtype(false);
    if (open_finding("F17") && (p.dtype == draco::DT_INT64 || p.dtype == draco::DT_UINT64 || p.dtype == draco::DT_BOOL ||
                                p.dtype == draco::DT_FLOAT64)) {
      // known finding F17: tex-coord / geometric-normal prediction is chosen for any "integral" position type,
      // also for those the integer coder does not handle (64-bit, bool)
      p.dtype = draco::DT_INT32;
      count("excluded_F17_position_type_without_portable_form");
    }
    p.ncomp = P(94) ? 3 : R(1, 4);
    p.normalized = P(5);
    p.mapmode = 0;
    plan.push_back(p);
  }
  const int nextra = std::min(cfg.max_extra_atts, W({22, 32, 26, 12, 8}));
  for (int i = 0; i < nextra; ++i) {
    AttPlan p;
    p.type = 1 + W({30, 20, 30, 20});
    p.dtype = gen_dtype(p.type == GeometryAttribute::NORMAL || p.type == GeometryAttribute::TEX_COORD);
    if (p.type == GeometryAttribute::COLOR && P(60)) p.dtype = draco::DT_UINT8;
    const int typical = p.type == GeometryAttribute::NORMAL ? 3 : p.type == GeometryAttribute::TEX_COORD ? 2 : p.type == GeometryAttribute::COLOR ? R(3, 4) : R(1, 4);
    const int cc = W({72, 22, 6});
    p.ncomp = cc == 0 ? typical : cc == 1 ? R(1, 4) : R(5, 8);
    p.normalized = P(15);
    p.mapmode = W({32, cfg.seam_focus ? 50 : 38, 10, 6, 8, 6});  // per-vertex, seams, per-face, constant, per-corner, per-vertex-merged
    plan.push_back(p);
  }
  // attribute order: position usually first, sometimes not (TestWrongAttributeOrder)
  if (plan.size() > 1 && P(15)) std::swap(plan[0], plan[R(1, static_cast<int>(plan.size()) - 1)]);
  const int na = static_cast<int>(plan.size());
  int pos_i = 0;
  for (int i = 0; i < na; ++i)
    if (plan[i].type == GeometryAttribute::POSITION) pos_i = i;

  // -------- connectivity and per-corner entry tables
  std::vector<std::vector<uint32_t>> tuples;  // per point: entry per attribute
  std::vector<uint32_t> nvals(na, 0);
  if (g.is_mesh) {
    Topo t = gen_topology(cfg, classes);
    const size_t nc = t.f.size() * 3;
    std::vector<std::vector<uint32_t>> ce(na, std::vector<uint32_t>(nc));
    for (int ai = 0; ai < na; ++ai) {
      if (ai == pos_i) {
        for (size_t c = 0; c < nc; ++c) ce[ai][c] = static_cast<uint32_t>(t.f[c / 3][c % 3]);
        nvals[ai] = static_cast<uint32_t>(t.nv);
        continue;
      }
      const bool big = nc > 600;
      SplitMix sm(U64());
      auto rr = [&](int lo, int hi) { return big ? sm.range(lo, hi) : R(lo, hi); };
      switch (plan[ai].mapmode) {
        case 0:
        case 1:
        case 5: {
          uint32_t nv = static_cast<uint32_t>(std::max(1, t.nv));
          std::vector<uint32_t> vmap(t.nv);
          if (plan[ai].mapmode == 5) {
            nv = static_cast<uint32_t>(std::max(1, t.nv / 2));
            for (auto &x : vmap) x = static_cast<uint32_t>(rr(0, static_cast<int>(nv) - 1));
          } else {
            for (int v = 0; v < t.nv; ++v) vmap[v] = static_cast<uint32_t>(v);
          }
          for (size_t c = 0; c < nc; ++c) ce[ai][c] = vmap[t.f[c / 3][c % 3]];
          if (plan[ai].mapmode == 1 && nc > 0) {
            // seams: some corners get a different value entry than the other corners of their vertex
            const int nseam = big ? rr(1, 40) : R(1, std::max(1, static_cast<int>(nc) / 4));
            for (int s = 0; s < nseam; ++s) {
              const size_t c = static_cast<size_t>(rr(0, static_cast<int>(nc) - 1));
              if (rr(0, 99) < 60) {
                ce[ai][c] = nv++;  // fresh entry
                // sometimes the neighbouring corner at the same vertex shares the new entry
                if (rr(0, 99) < 40) {
                  const int v = t.f[c / 3][c % 3];
                  for (size_t c2 = 0; c2 < nc; ++c2) {
                    if (c2 != c && t.f[c2 / 3][c2 % 3] == v) {
                      ce[ai][c2] = ce[ai][c];
                      break;
                    }
                  }
                }
              } else {
                ce[ai][c] = static_cast<uint32_t>(rr(0, static_cast<int>(nv) - 1));
              }
            }
            classes->push_back("att_with_seams");
          }
          nvals[ai] = nv;
          break;
        }
        case 2: {
          for (size_t c = 0; c < nc; ++c) ce[ai][c] = static_cast<uint32_t>(c / 3);
          nvals[ai] = static_cast<uint32_t>(std::max<size_t>(1, t.f.size()));
          classes->push_back("att_per_face");
          break;
        }
        case 3:
          std::fill(ce[ai].begin(), ce[ai].end(), 0u);
          nvals[ai] = 1;
          break;
        default:
          for (size_t c = 0; c < nc; ++c) ce[ai][c] = static_cast<uint32_t>(c);
          nvals[ai] = static_cast<uint32_t>(std::max<size_t>(1, nc));
          classes->push_back("att_per_corner");
      }
      if (P(10)) nvals[ai] += R(1, 3);  // unused value entries
    }
    // points = distinct entry tuples (usually), faces -> point ids
    int dedup = W({78, 10, 12});  // full dedup / none (every corner its own point) / partial duplicates
    if (open_finding("F12") && dedup != 0) {
      // known finding F12: the Edgebreaker encoder's reported point count assumes de-duplicated point ids
      dedup = 0;
      count("excluded_F12_duplicate_point_ids");
    }
    std::map<std::vector<uint32_t>, uint32_t> ids;
    g.faces.resize(nc);
    SplitMix smd(U64());
    for (size_t c = 0; c < nc; ++c) {
      std::vector<uint32_t> tup(na);
      for (int ai = 0; ai < na; ++ai) tup[ai] = ce[ai][c];
      uint32_t id;
      auto it = ids.find(tup);
      if (dedup == 1 || it == ids.end() || (dedup == 2 && smd.below(4) == 0)) {
        id = static_cast<uint32_t>(tuples.size());
        tuples.push_back(tup);
        ids[tup] = id;
      } else {
        id = it->second;
      }
      g.faces[c] = id;
    }
    if (dedup == 1) classes->push_back("points_not_deduplicated");
    if (dedup == 2) classes->push_back("points_partially_duplicated");
    // isolated points
    if (P(cfg.seam_focus ? 30 : 14)) {
      const int k = R(1, 3);
      for (int i = 0; i < k; ++i) {
        std::vector<uint32_t> tup(na);
        for (int ai = 0; ai < na; ++ai) tup[ai] = static_cast<uint32_t>(R(0, static_cast<int>(nvals[ai]) - 1));
        tuples.push_back(tup);
      }
      classes->push_back("isolated_points");
    }
    // exact point counts around the index-width thresholds of the sequential coder (255/256/257, 65535/65536/65537):
    // padded with isolated points
    {
      const int bc = W({cfg.thorough ? 90 : 94, 5, cfg.thorough ? 5 : 1});
      if (bc > 0 && cfg.allow_large) {
        const uint32_t target = (bc == 1 ? 256u : 65536u) + static_cast<uint32_t>(R(-1, 1));
        if (tuples.size() < target) {
          SplitMix sm(U64());
          while (tuples.size() < target) {
            std::vector<uint32_t> tup(na);
            for (int ai = 0; ai < na; ++ai) tup[ai] = static_cast<uint32_t>(sm.below(nvals[ai]));
            tuples.push_back(tup);
          }
          classes->push_back(bc == 1 ? "points_exactly_255_256_257" : "points_exactly_65535_65536_65537");
        }
      }
    }
    // optional point permutation
    if (!tuples.empty() && tuples.size() <= 300 && P(25)) {
      std::vector<uint32_t> perm(tuples.size());
      for (size_t i = 0; i < perm.size(); ++i) perm[i] = static_cast<uint32_t>(i);
      for (size_t i = perm.size(); i > 1; --i) std::swap(perm[i - 1], perm[R(0, static_cast<int>(i) - 1)]);
      std::vector<std::vector<uint32_t>> nt(tuples.size());
      for (size_t i = 0; i < perm.size(); ++i) nt[perm[i]] = tuples[i];
      tuples.swap(nt);
      for (auto &p : g.faces) p = perm[p];
      classes->push_back("points_permuted");
    }
  } else {
    const int sc = W({10, 45, 35, cfg.allow_large ? 10 : 0});
    int np = sc == 0 ? R(0, 2) : sc == 1 ? R(3, 20) : sc == 2 ? R(21, 120) : R(121, cfg.thorough ? 20000 : 3000);
    if (np == 0 && open_finding("F16")) {
      // known finding F16: geometry without points - null dereferences in the attribute encoders
      np = 1;
      count("excluded_F16_point_cloud_without_points");
    }
    for (int ai = 0; ai < na; ++ai) {
      const int mm = W({50, 30, 10, 10});
      nvals[ai] = mm == 0 ? static_cast<uint32_t>(np) : mm == 1 ? static_cast<uint32_t>(std::max(1, np / 2)) : mm == 2 ? 1u : static_cast<uint32_t>(np + R(1, 3));
      if (nvals[ai] == 0) nvals[ai] = P(50) ? 0 : 1;
      plan[ai].mapmode = mm;
    }
    tuples.resize(np);
    SplitMix sm(U64());
    for (int p = 0; p < np; ++p) {
      tuples[p].resize(na);
      for (int ai = 0; ai < na; ++ai) {
        if (nvals[ai] == 0) { tuples[p][ai] = 0; continue; }
        if (plan[ai].mapmode == 0 || plan[ai].mapmode == 3) {
          tuples[p][ai] = static_cast<uint32_t>(p);
        } else {
          tuples[p][ai] = np > 150 ? static_cast<uint32_t>(sm.below(nvals[ai])) : static_cast<uint32_t>(R(0, static_cast<int>(nvals[ai]) - 1));
        }
      }
    }
    classes->push_back(np <= 2 ? "pc_0_2_points" : np <= 120 ? "pc_small" : "pc_large");
  }
  g.npoints = static_cast<uint32_t>(tuples.size());
  // a point cloud attribute without values cannot be mapped: give it one value when points exist
  for (int ai = 0; ai < na; ++ai)
    if (g.npoints > 0 && nvals[ai] == 0) nvals[ai] = 1;

  // -------- options (needed before values: quantized attributes draw finite values)
  o.per_type.resize(5);
  bool any_q = false, any_wide = false, any_full = false;
  for (int t = 0; t < 5; ++t) o.per_type[t] = gen_att_opt(cfg, t, false);
  o.per_att.resize(na);
  for (int ai = 0; ai < na; ++ai) o.per_att[ai] = gen_att_opt(cfg, plan[ai].type, false);
  if (cfg.lossy_focus) {
    // make sure at least one float attribute is quantized
    int fa = -1;
    for (int ai = 0; ai < na; ++ai)
      if (plan[ai].dtype == draco::DT_FLOAT32) fa = ai;
    if (fa < 0) { fa = pos_i; plan[fa].dtype = draco::DT_FLOAT32; }
    AttOpt q = gen_att_opt(cfg, plan[fa].type, true);
    o.per_att[fa] = q;
    o.per_type[plan[fa].type] = q;
  }
  for (int ai = 0; ai < na; ++ai) {
    AttOpt &ao = o.api == 1 ? o.per_att[ai] : o.per_type[plan[ai].type];
    if (plan[ai].type == GeometryAttribute::NORMAL && plan[ai].dtype == draco::DT_FLOAT32 && plan[ai].ncomp != 3 &&
        ao.qbits > 0 && P(85)) {
      ao.qbits = -1;  // the normal encoder accepts 3 components only: keep the refusal path rare
    }
  }
  // known finding F3 (forced tex-coord prediction on a TEX_COORD attribute with != 2 components): avoided while open
  for (int ai = 0; ai < na; ++ai) {
    AttOpt &ao = o.api == 1 ? o.per_att[ai] : o.per_type[plan[ai].type];
    const bool portable_2comp = (plan[ai].dtype == draco::DT_FLOAT32 && plan[ai].ncomp == 3 && ao.qbits > 0) ||
                                (plan[ai].dtype != draco::DT_FLOAT32 && plan[ai].ncomp == 2);
    if (open_finding("F11") && ao.pred == 6 && plan[ai].type == GeometryAttribute::NORMAL && !portable_2comp) {
      ao.pred = kPredUnset;
      count("excluded_F11_forced_geometric_normal_prediction_on_non_octahedral_attribute");
    }
    {
      const AttOpt &po = o.api == 1 ? o.per_att[pos_i] : o.per_type[GeometryAttribute::POSITION];
      const bool pos_portable = (plan[pos_i].dtype == draco::DT_FLOAT32 && po.qbits > 0) ||
                                (plan[pos_i].dtype >= draco::DT_INT8 && plan[pos_i].dtype <= draco::DT_UINT32);
      if (open_finding("F18") && (ao.pred == 5 || ao.pred == 6) && ai != pos_i && !(pos_portable && plan[pos_i].ncomp == 3)) {
        // known finding F18: a forced tex-coord / geometric-normal scheme is not refused when the position
        // attribute has no integer (portable) form
        ao.pred = kPredUnset;
        count("excluded_F18_forced_mesh_prediction_without_portable_positions");
      }
    }
    if (open_finding("F3") && ao.pred == 5 && plan[ai].type == GeometryAttribute::TEX_COORD && plan[ai].ncomp != 2) {
      ao.pred = kPredUnset;
      count("excluded_F3_forced_texcoord_prediction_on_non2_components");
    }
  }

  // -------- attributes with values
  std::set<uint32_t> used_ids;
  g.atts.resize(na);
  for (int ai = 0; ai < na; ++ai) {
    AttSpec &a = g.atts[ai];
    a.type = plan[ai].type;
    a.dtype = plan[ai].dtype;
    a.ncomp = plan[ai].ncomp;
    a.normalized = plan[ai].normalized;
    a.unique_id = gen_unique_id(used_ids, static_cast<uint32_t>(ai));
    a.nvalues = nvals[ai];
    const AttOpt &ao = o.api == 1 ? o.per_att[ai] : o.per_type[a.type];
    const bool quantized = a.dtype == draco::DT_FLOAT32 && ao.qbits > 0;
    any_q |= quantized;
    const bool bulk = static_cast<uint64_t>(a.nvalues) * a.ncomp > 400;
    ValueGen vgx(a.dtype, quantized, a.type == GeometryAttribute::NORMAL && a.dtype == draco::DT_FLOAT32 && a.ncomp == 3, bulk, cfg.thorough, cfg.allow_wide);
    a.data.reserve(static_cast<size_t>(a.nvalues) * a.stride());
    const int dup_pct = W({50, 30, 20}) == 0 ? 0 : R(5, 60);  // share of values copied from an earlier value
    for (uint32_t v = 0; v < a.nvalues; ++v) {
      if (v > 0 && dup_pct > 0 && (bulk ? vgx.sm.range(0, 99) : R(0, 99)) < dup_pct) {
        const uint32_t src = bulk ? static_cast<uint32_t>(vgx.sm.below(v)) : static_cast<uint32_t>(R(0, static_cast<int>(v) - 1));
        const size_t st = a.stride();
        a.data.resize(a.data.size() + st);
        memcpy(a.data.data() + a.data.size() - st, a.data.data() + static_cast<size_t>(src) * st, st);
        continue;
      }
      for (int c = 0; c < a.ncomp; ++c) vgx.gen(a.data);
    }
    const bool octa = quantized && a.type == GeometryAttribute::NORMAL;
    if (quantized && P(2) && a.nvalues > 0 && !(octa && open_finding("F14"))) {
      // non-finite value in a quantized attribute: the encoder has to refuse
      float bad = P(50) ? INFINITY : NAN;
      memcpy(a.data.data() + static_cast<size_t>(R(0, static_cast<int>(a.nvalues) - 1)) * a.stride(), &bad, 4);
      classes->push_back("nonfinite_in_quantized_attribute");
    }
    // mapping
    a.map.resize(g.npoints);
    for (uint32_t p = 0; p < g.npoints; ++p) a.map[p] = tuples[p][ai];
    bool is_identity = a.nvalues >= g.npoints;
    for (uint32_t p = 0; p < g.npoints && is_identity; ++p) is_identity = a.map[p] == p;
    if (is_identity && a.nvalues == g.npoints && P(80)) {
      a.identity = 1;
      a.map.clear();
    } else if (P(12) && g.npoints > 0 && g.npoints <= 5000) {
      // materialise as an identity-mapped attribute (one stored value per point)
      std::vector<uint8_t> nd(static_cast<size_t>(g.npoints) * a.stride());
      for (uint32_t p = 0; p < g.npoints; ++p) memcpy(nd.data() + static_cast<size_t>(p) * a.stride(), a.value(a.map[p]), a.stride());
      a.data.swap(nd);
      a.nvalues = g.npoints;
      a.identity = 1;
      a.map.clear();
      classes->push_back("att_expanded_to_identity_mapping");
    }
    if ((a.dtype == draco::DT_INT32 || a.dtype == draco::DT_UINT32) && vgx.iclass == 2) {
      count("int32_values_limited_to_2^" + std::to_string(vgx.wide_bits) + " (cost; E2 beyond 2^30)");
      if (vgx.wide_bits > 24) any_wide = true;
      if (vgx.wide_bits > 29) any_full = true;
    }
    if (quantized && ao.qbits > 24) any_wide = true;
  }
  // explicit quantization boxes
  for (int ai = 0; ai < na; ++ai) {
    AttOpt &ao = o.api == 1 ? o.per_att[ai] : o.per_type[g.atts[ai].type];
    const AttSpec &a = g.atts[ai];
    if (a.dtype == draco::DT_FLOAT32 && ao.qbits > 0 && !ao.explicit_q && a.nvalues > 0 && P(22)) {
      if (o.api == 0) {
        // options are shared by all attributes of this type: the box must hold all of them - only when unique
        int same = 0;
        for (int j = 0; j < na; ++j) same += g.atts[j].type == a.type;
        if (same > 1) continue;
      }
      if (gen_explicit_box(a, &ao)) classes->push_back("explicit_quantization");
    }
  }
  (void)any_q;
  // -------- global options
  o.method = W({40, 25, 35}) - 1;
  o.eb_method = W({64, 18, 18}) == 0 ? -1 : (P(50) ? 0 : 2);
  if (P(70)) {
    o.enc_speed = R(0, 10);
    o.dec_speed = P(60) ? o.enc_speed : R(0, 10);
  }
  if (any_full) {
    // 32-bit integers over their full range: the mesh predictors (parallelogram family, tex-coord, geometric normal)
    // do 32/64-bit signed arithmetic on coordinates that overflows beyond ~2^30 (undefined behaviour in encoder and
    // decoder alike, outside the listed properties), so full-range cases are coded without prediction or with the
    // difference scheme (and by the kd-tree coder).
    for (size_t i = 0; i < o.per_att.size(); ++i)   // PREDICTION_NONE / PREDICTION_DIFFERENCE (NORMAL: see below)
      o.per_att[i].pred = (g.atts[i].type == GeometryAttribute::NORMAL || P(50)) ? 0 : -2;
    for (size_t t = 0; t < o.per_type.size(); ++t) o.per_type[t].pred = (t == GeometryAttribute::NORMAL || P(50)) ? 0 : -2;
    classes->push_back("int32_full_range_values");
  }
  if (any_wide) {
    // Values above 2^24 (quantization with 25..30 bits, wide 32-bit integers) are kept on the prediction schemes
    // none / difference / parallelogram / multi-parallelogram:
    //  - MeshPredictionSchemeConstrainedMultiParallelogramEncoder sums absolute residuals and up to four predictions
    //    in int32 (encoder-side choice metric: undefined behaviour beyond 2^29 that UBSan reports although both sides
    //    compute the same wrapped values); its entropy tracker also allocated O(largest correction) counters until
    //    finding F29 was fixed;
    //  - the tex-coord and geometric-normal predictors square coordinate differences in int64, which overflows
    //    for such magnitudes (they refuse some of those inputs, and the encoder-only orientation choice is
    //    undefined behaviour that UBSan would report although it cannot change the decoded values).
    // Unset predictions would select those schemes by default (speed < 4), so they are set explicitly; counted.
    bool changed = false;
    // (Set*PredictionScheme refuses the deprecated scheme 2 and, for NORMAL attributes, everything but the
    // difference and geometric-normal schemes; a refused call leaves the automatic choice in place)
    auto fix = [&](AttOpt &ao, int type) {
      const bool ok = type == GeometryAttribute::NORMAL ? ao.pred == 0 : (ao.pred == -2 || ao.pred == 0 || ao.pred == 1);
      if (!ok) {
        ao.pred = type == GeometryAttribute::NORMAL ? 0 : pick({-2, 0, 1});
        changed = true;
      }
    };
    for (size_t i = 0; i < o.per_att.size(); ++i) fix(o.per_att[i], g.atts[i].type);
    for (size_t t = 0; t < o.per_type.size(); ++t) fix(o.per_type[t], static_cast<int>(t));
    if (changed) count("wide_values_kept_on_basic_prediction_schemes (cost / int64 overflow in predictors)");
    classes->push_back("wide_values_over_2^24");
  }
  o.builtin_compression = W({80, 10, 10}) - 1;
  o.split_on_seams = W({70, 15, 15}) - 1;
  o.compress_connectivity = W({65, 10, 25}) - 1;
  o.track = P(cfg.seam_focus ? 100 : 50);
  o.call_submethod = P(20);
  cs.skip_mask = static_cast<uint32_t>(R(0, 31));
  return cs;
}

// Appends a GENERIC uint32 attribute holding the point index (identity mapped): gives the correspondence between
// input and decoded points for the methods that reorder points.
inline int add_tag_attribute(CaseSpec *cs) {
  AttSpec t;
  t.type = GeometryAttribute::GENERIC;
  t.dtype = draco::DT_UINT32;
  t.ncomp = 1;
  t.identity = 1;
  t.nvalues = cs->g.npoints;
  uint32_t id = 777000;
  for (bool clash = true; clash;) {
    clash = false;
    for (auto &a : cs->g.atts) clash |= a.unique_id == id;
    if (clash) ++id;
  }
  t.unique_id = id;
  t.data.resize(static_cast<size_t>(cs->g.npoints) * 4);
  for (uint32_t p = 0; p < cs->g.npoints; ++p) memcpy(t.data.data() + 4 * p, &p, 4);
  cs->g.atts.push_back(t);
  cs->o.per_att.push_back(AttOpt());
  return static_cast<int>(cs->g.atts.size()) - 1;
}

// ---------------------------------------------------------------------------------------------
inline std::string describe_case(const CaseSpec &cs) {
  const GeomSpec &g = cs.g;
  const OptSpec &o = cs.o;
  J j;
  j.str("kind", g.is_mesh ? "mesh" : "point_cloud").num("points", g.npoints).num("faces", g.nfaces());
  if (g.nfaces() <= 12) j.raw("face_point_ids", jarr(g.faces));
  std::string atts = "[";
  for (size_t ai = 0; ai < g.atts.size(); ++ai) {
    const AttSpec &a = g.atts[ai];
    const AttOpt &ao = o.opt_for(g, static_cast<int>(ai));
    J ja;
    ja.num("type", a.type).num("data_type", a.dtype).num("components", a.ncomp).num("normalized", a.normalized);
    ja.num("unique_id", a.unique_id).num("values", a.nvalues).num("identity_map", a.identity);
    ja.num("quantization_bits", ao.qbits).num("explicit_box", ao.explicit_q).num("forced_prediction", ao.pred);
    if (a.nvalues * a.stride() <= 48) ja.str("value_bytes_hex", hex(a.data.data(), a.data.size()));
    if (a.dtype == draco::DT_FLOAT32) {
      int nonfinite = 0;
      float mn = INFINITY, mx = -INFINITY;
      for (uint32_t v = 0; v < a.nvalues; ++v)
        for (int c = 0; c < a.ncomp; ++c) {
          const float x = a.getf(v, c);
          if (!std::isfinite(x)) ++nonfinite;
          else { mn = std::min(mn, x); mx = std::max(mx, x); }
        }
      ja.num("nonfinite_values", nonfinite);
      if (mn <= mx) ja.num("min", mn).num("max", mx);
    }
    if (!a.identity && a.map.size() <= 16) ja.raw("point_to_value", jarr(a.map));
    atts += (ai ? "," : "") + ja.done();
  }
  j.raw("attributes", atts + "]");
  J jo;
  jo.str("api", o.api ? "ExpertEncoder" : "Encoder").num("method", o.method).num("edgebreaker_method", o.eb_method);
  jo.num("encoding_speed", o.enc_speed).num("decoding_speed", o.dec_speed).num("builtin_compression", o.builtin_compression);
  jo.num("split_on_seams", o.split_on_seams).num("compress_connectivity", o.compress_connectivity).num("track", o.track);
  j.raw("options", jo.done());
  return j.done();
}

}  // namespace vg

#endif  // VERIF_COMMON_GEOM_H_
