"""Check registry and runners (rapidcheck shards, enumerators, fuzz campaigns)."""
import os, sys, json, time, subprocess, hashlib, shutil, tempfile, glob
from concurrent.futures import ThreadPoolExecutor
import vbuild
from vbuild import VERIF, REPO, harness, ensure_built

# VERIF_OUTDIR redirects evidence/replay output (used when trying seeded mutants in a scratch worktree, so
# that such runs never overwrite the evidence of the real tree).
_OUT = os.environ.get("VERIF_OUTDIR", VERIF)
EVIDENCE = os.path.join(_OUT, "evidence")
REPLAY = os.path.join(_OUT, "replay")
KNOWN = os.path.join(VERIF, "known_findings.json")
SEED = int(os.environ.get("VERIF_SEED", "1") or "1")

SAN_ENV = {
    # malloc_context_size / quarantine_size_mb: ASan's stack depot keeps every distinct allocation stack for ever; with
    # rapidcheck's deep call stacks a shard grew by ~250 KB per case (5 GB per shard at thorough case counts, the kernel
    # OOM-killed them). Six frames per allocation stack keep the depot flat; error stacks themselves stay complete and
    # replays run with the full context again.
    "ASAN_OPTIONS": "detect_leaks=1:abort_on_error=0:allocator_may_return_null=1:max_allocation_size_mb=3000:"
                    "detect_stack_use_after_return=0:handle_abort=1:malloc_context_size=6:quarantine_size_mb=128",
    "UBSAN_OPTIONS": "halt_on_error=1:print_stacktrace=1",
    "TSAN_OPTIONS": "halt_on_error=1:report_signal_unsafe=0",
}

# ------------------------------------------------------------------------------------------------
# harness registry (name -> build recipe)
harness("c08_symbols", "san", "pbt/c08_symbols.cc", link="-lrapidcheck")
harness("geom_pbt", "san", "pbt/geom_pbt.cc", link="-lrapidcheck")
harness("c13_corner_table", "san", "pbt/c13_corner_table.cc", link="-lrapidcheck")
harness("prim_pbt", "san", "pbt/prim_pbt.cc", link="-lrapidcheck")
harness("c11_metadata", "san", "pbt/c11_metadata.cc", link="-lrapidcheck")
harness("c20_animation", "san", "pbt/c20_animation.cc", link="-lrapidcheck")
harness("c14_builders", "san", "pbt/c14_builders.cc", link="-lrapidcheck")
harness("c15_io", "san", "pbt/c15_io.cc", link="-lrapidcheck")
harness("dec_enum", "san", "fuzz/dec_enum.cc", link="-lrapidcheck")
harness("c05_corpus", "san", "pbt/c05_corpus.cc", link="-lrapidcheck")
harness("c06_history", "san", "pbt/c06_history.cc", link="-lrapidcheck")
harness("c19_threads_tsan", "tsan", "pbt/c19_threads.cc", link="-lrapidcheck")
harness("c19_threads_asan", "san", "pbt/c19_threads.cc", link="-lrapidcheck")
harness("c06_history_plain", "plain", "pbt/c06_history.cc", link="-lrapidcheck")
harness("dec_fuzz", "san", "fuzz/dec_fuzz.cc", link="-fsanitize=fuzzer")
harness("dec_tamper", "san", "fuzz/dec_tamper.cc", link="-lrapidcheck")
# the command line tools of the repository, plain optimised build (C15 pipelines)
harness("draco_encoder", "plain", "repo:src/draco/tools/draco_encoder.cc", whole_archive=True)
harness("draco_decoder", "plain", "repo:src/draco/tools/draco_decoder.cc", whole_archive=True)

# ------------------------------------------------------------------------------------------------


def load_known():
    try:
        return json.load(open(KNOWN))
    except Exception:
        return {"findings": []}


def open_findings(prop=None):
    out = []
    for f in load_known().get("findings", []):
        if f.get("status") == "open" and (prop is None or prop in f.get("properties", [f.get("property")])):
            out.append(f)
    return out


def derive_seed(*parts):
    h = hashlib.sha256(("/".join(str(p) for p in parts)).encode()).digest()
    return int.from_bytes(h[:4], "big") | 1


def write_evidence(prop, tier, level, coverage, wall, violations, assumptions):
    os.makedirs(EVIDENCE, exist_ok=True)
    ev = dict(property_id=prop, tier=tier, seed=SEED, level=level, coverage=coverage,
              assumptions=assumptions, wall_s=round(wall, 2), violations=violations)
    tmp = os.path.join(EVIDENCE, prop + ".json.tmp")
    json.dump(ev, open(tmp, "w"), indent=1, sort_keys=True)
    os.replace(tmp, os.path.join(EVIDENCE, prop + ".json"))


class Result:
    """Accumulates shard outputs of one check."""

    def __init__(self):
        self.evaluations = 0
        self.classes = {}
        self.nontrivial = set()
        self.samples = []
        self.rules = []
        self.failures = []  # (harness name, exe, mode, replay path, message)
        self.harness_errors = []
        self.exhaustive = None
        self.extra = {}

    def merge_file(self, path, hname, exe, mode):
        try:
            d = json.load(open(path))
        except Exception as e:
            return False
        self.evaluations += d.get("evaluations", 0)
        for k, v in d.get("classes", {}).items():
            # counters add up over shards; calibration maxima ("..._max_...") are maxima
            self.classes[k] = max(self.classes.get(k, 0), v) if "_max_" in k else self.classes.get(k, 0) + v
        self.nontrivial.update(d.get("nontrivial", []))
        # harnesses that test millions of inputs count their distinct non-trivial inputs themselves
        self.nontrivial_extra = getattr(self, "nontrivial_extra", 0) + d.get("classes", {}).get("nontrivial_count", 0)
        for s in d.get("samples", []):
            if len(self.samples) < 6:
                self.samples.append(s)
        r = d.get("rule")
        if r and r not in self.rules:
            self.rules.append(r)
        for f in d.get("failures", []):
            self.failures.append((hname, exe, mode, f, d.get("fail_message", "")))
        if "exhaustive" in d:
            self.exhaustive = d["exhaustive"] if self.exhaustive is None else (self.exhaustive and d["exhaustive"])
        return True


def run_shards(res, prop, hname, exe, mode, tier, shards, cases, max_size=100, extra_env=None, extra_args=None,
               timeout=None, label=None):
    """Run `shards` rapidcheck processes of one harness in parallel and merge their stats."""
    tmpd = tempfile.mkdtemp(prefix="verif_%s_" % prop, dir=vbuild.BUILD)
    os.makedirs(os.path.join(REPLAY, "tmp"), exist_ok=True)
    if timeout is None:
        timeout = 3600 if tier == "quick" else 3 * 3600
    opens = ",".join(f["id"] for f in open_findings())

    def one(i):
        env = dict(os.environ)
        env.update(SAN_ENV)
        env.update(extra_env or {})
        seed = derive_seed(SEED, prop, label or mode, i)
        env["RC_PARAMS"] = "seed=%d max_success=%d max_size=%d" % (seed, cases, max_size)
        env["VERIF_OUT"] = os.path.join(tmpd, "s%d.json" % i)
        env["VERIF_REPLAY_DIR"] = os.path.join(REPLAY, "tmp")
        env["VERIF_PROP"] = prop
        env["VERIF_TIER"] = tier
        env["VERIF_MODE"] = mode
        env["VERIF_SHARD"] = str(i)
        env["VERIF_NSHARDS"] = str(shards)
        env["VERIF_OPEN"] = opens
        env.update(extra_env or {})
        log = os.path.join(tmpd, "s%d.log" % i)
        with open(log, "w") as lf:
            try:
                r = subprocess.run([exe] + (extra_args or []), env=env, stdout=lf, stderr=subprocess.STDOUT,
                                   timeout=timeout)
                rc = r.returncode
            except subprocess.TimeoutExpired:
                rc = -999
        return i, rc, env["VERIF_OUT"], log

    with ThreadPoolExecutor(min(shards, vbuild.NCPU)) as ex:
        outs = list(ex.map(one, range(shards)))
    for i, rc, out, log in outs:
        ok = res.merge_file(out, hname, exe, mode)
        if rc not in (0, -999) and (extra_env or {}).get("VERIF_PRESAVE"):
            # the process died (sanitizer): the case it was running was saved before it started
            for pend in glob.glob(os.path.join(REPLAY, "tmp", "%s-pending-*.json" % prop)):
                dst = pend.replace("-pending-", "-crash-")
                os.replace(pend, dst)
                res.failures.append((hname, exe, mode, dst, "process died while running this case (sanitizer report)"))
                shutil.copy(log, dst + ".shardlog")
        if rc == -999:
            # time budget hit: inconclusive for what was not reached, never a verdict (the shard's partial statistics,
            # written every 30 s, were merged above)
            res.extra.setdefault("inconclusive_timeouts", 0)
            res.extra["inconclusive_timeouts"] += 1
            continue
        if rc != 0 and not any(True for f in res.failures):
            tail = open(log, errors="replace").read()[-3000:]
            res.harness_errors.append("%s shard %d rc=%d: %s" % (hname, i, rc, tail))
        elif rc != 0:
            # keep the log of failing shards for triage
            dst = os.path.join(REPLAY, "tmp", "%s-%s-shard%d.log" % (prop, hname, i))
            shutil.copy(log, dst)
    shutil.rmtree(tmpd, ignore_errors=True)


def replay_once(exe, mode, path, timeout=600):
    env = dict(os.environ)
    env.update(SAN_ENV)
    env["ASAN_OPTIONS"] = SAN_ENV["ASAN_OPTIONS"].replace("malloc_context_size=6", "malloc_context_size=30")
    env["VERIF_OPEN"] = ""
    bn = os.path.basename(path)
    if bn[:1] == "C" and bn[1:3].isdigit():
        env["VERIF_PROP"] = bn[:3]
    try:
        r = subprocess.run([exe, "--mode", mode, "--replay", path], env=env, capture_output=True, text=True,
                           errors="replace", timeout=timeout)
    except subprocess.TimeoutExpired:
        return None, "timeout"
    out = r.stdout + r.stderr
    if r.returncode == 0 and "REPLAY-PASS" in out:
        return True, out
    return False, out


def confirm_failures(prop, res):
    """Replay each failure 3x; returns list of confirmed (path, message)."""
    confirmed = []
    seen = set()
    # ordinary failures first, hangs last; at most 8 violations are reported per run and at most 2 recorded hangs are
    # re-run (each costs up to 3 x 180 s) - one confirmed violation already decides the exit code
    ordered = sorted(res.failures, key=lambda f: "-hang-" in os.path.basename(f[3]))
    hangs_tried = 0
    for hname, exe, mode, path, msg in ordered:
        if path in seen or not os.path.exists(path):
            continue
        seen.add(path)
        fails = 0
        detail = ""
        is_hang = "-hang-" in os.path.basename(path)
        if len(confirmed) >= 8 or (is_hang and (hangs_tried >= 2 or (confirmed and hangs_tried >= 1))):
            res.extra["failures_not_replayed_after_cap"] = res.extra.get("failures_not_replayed_after_cap", 0) + 1
            continue
        hangs_tried += is_hang
        for _ in range(3):
            # a recorded hang is re-run alone with a limit far above any normal case (cases take milliseconds)
            ok, out = replay_once(exe, mode, path, timeout=180 if is_hang else 900)
            if ok is False or (ok is None and is_hang):
                fails += 1
                detail = out if isinstance(out, str) else "timeout"
        if fails == 3:
            dst = os.path.join(REPLAY, os.path.basename(path))
            shutil.copy(path, dst)
            with open(dst + ".log", "w") as f:
                f.write(detail[-20000:])
            confirmed.append((dst, msg, hname, mode))
        else:
            res.extra.setdefault("unreproduced_failures", []).append(os.path.basename(path))
    return confirmed


PROBE_ERRORS = []


def probe_known(prop):
    """Replays the recorded failing case of every open finding of `prop`; prints a KNOWN-FINDING line for each
    one that still fails (a finding that no longer reproduces prints nothing). A probe file the harness cannot
    parse is a harness error, never a reproduction."""
    hits = []
    for f in open_findings(prop):
        pr = f.get("probe")
        if not pr:
            continue
        exe = ensure_built([pr["harness"]])[pr["harness"]]
        fails = 0
        if "probe_id" in pr:
            # the failing case is built in code by the harness (`--probe <id>`): PROBE-FAIL = still reproduces
            for _ in range(2):
                env = dict(os.environ)
                env.update(SAN_ENV)
                env.update({"VERIF_OPEN": "", "VERIF_PROP": prop, "VERIF_OUT": ""})
                try:
                    r = subprocess.run([exe, "--mode", pr.get("mode", ""), "--probe", pr["probe_id"]], env=env,
                                       capture_output=True, text=True, errors="replace", timeout=900)
                    if "PROBE-PASS" not in r.stdout:
                        fails += 1
                except subprocess.TimeoutExpired:
                    fails += 1
            if fails == 2:
                print("KNOWN-FINDING: property=%s %s: %s" % (prop, f["id"], f["description"]))
                hits.append(f["id"])
            continue
        path = os.path.join(VERIF, pr["replay"])
        for _ in range(2):
            ok, out = replay_once(exe, pr["mode"], path, timeout=900)
            if "bad replay tokens" in (out or "") or not os.path.exists(path):
                PROBE_ERRORS.append("probe %s of finding %s cannot be parsed by harness %s" % (pr["replay"], f["id"], pr["harness"]))
                break
            if ok is not True:
                fails += 1
        if fails == 2:
            print("KNOWN-FINDING: property=%s %s: %s" % (prop, f["id"], f["description"]))
            hits.append(f["id"])
    return hits


def finish(prop, tier, res, t0, level="exploration", assumptions=None):
    known_hits = probe_known(prop)
    confirmed = confirm_failures(prop, res)
    cov = dict(evaluations=res.evaluations, distinct_nontrivial=len(res.nontrivial) + getattr(res, "nontrivial_extra", 0),
               rule=" | ".join(res.rules), samples=res.samples[:6], classes=dict(sorted(res.classes.items())),
               known_findings_reproduced=known_hits,
               open_findings_excluded_by_construction=[f["id"] for f in open_findings(prop)])
    if res.exhaustive is not None:
        cov["exhaustive"] = bool(res.exhaustive)
    cov.update(res.extra)
    gaps = [k for k in getattr(res, "required_classes", []) if not res.classes.get(k)]
    if gaps:
        cov["generator_gap"] = gaps
    write_evidence(prop, tier, level, cov, time.time() - t0, len(confirmed), assumptions or [])
    for path, msg, hname, mode in confirmed:
        print("VIOLATION property=%s replay=%s" % (prop, path))
        print("  (%s/%s) %s" % (hname, mode, msg[:500]))
    if confirmed:
        return 1
    res.harness_errors = list(res.harness_errors) + PROBE_ERRORS
    if res.evaluations == 0 and not confirmed:
        res.harness_errors.append("no case was evaluated (every shard hit its time limit?): inconclusive, not a pass")
    if res.harness_errors:
        sys.stderr.write("HARNESS ERROR (not a verdict about the property):\n" + "\n".join(res.harness_errors) + "\n")
        return 2
    print("OK property=%s tier=%s evaluations=%d distinct_nontrivial=%d wall=%.1fs" % (
        prop, tier, res.evaluations, len(res.nontrivial) + getattr(res, "nontrivial_extra", 0), time.time() - t0))
    return 0


# ------------------------------------------------------------------------------------------------
# per-property checks

def check_c08(tier):
    t0 = time.time()
    exe = ensure_built(["c08_symbols"])["c08_symbols"]
    res = Result()
    cases = 1000 if tier == "quick" else 15000
    run_shards(res, "C08", "c08_symbols", exe, "c08", tier, 16, cases)
    res.required_classes = ["scheme_tagged", "scheme_raw", "second_block", "components_4", "maxbits_25_32"]
    return finish("C08", tier, res, t0,
                  assumptions=["magnitudes above 2^22 (quick) / 2^24 (thorough) are not generated for the forced raw "
                               "scheme (the raw coder allocates O(max value) counters); counted",
                               "lengths up to 5000 (quick) / 100000 (thorough)"])


GEOM_ASSUME = ["values above 2^24 (quantization with 25..30 bits, wide 32-bit integers) are kept on the prediction "
               "schemes none / difference / parallelogram, 32-bit integers over their full range on none / difference: "
               "the other predictors overflow int32/int64 intermediates there (undefined behaviour outside the listed "
               "properties, which UBSan would report); counted as wide_values_* / int32_full_range_values",
               "open known findings are avoided by construction (see open_findings_excluded_by_construction and "
               "the excluded_* class counters)"]


def check_geom(prop, mode, tier, quick_cases, thorough_cases, required):
    t0 = time.time()
    exe = ensure_built(["geom_pbt"])["geom_pbt"]
    res = Result()
    cases = quick_cases if tier == "quick" else thorough_cases
    run_shards(res, prop, "geom_pbt", exe, mode, tier, 16, cases)
    res.required_classes = required
    return finish(prop, tier, res, t0, assumptions=GEOM_ASSUME)


def check_c01(tier):
    return check_geom("C01", "c01", tier, 3500, 30000,
                      ["method_mesh_sequential", "method_mesh_edgebreaker", "method_pc_sequential", "method_pc_kdtree",
                       "edgebreaker_traversal_0", "edgebreaker_traversal_2", "att_quantized_float",
                       "att_octahedral_normals", "att_integer", "att_raw_float", "mesh_with_attribute_seam_or_split_vertex",
                       "mesh_non_manifold_edge", "mesh_with_degenerate_face", "mesh_with_isolated_point",
                       "builtin_compression_off", "split_on_seams_on", "sequential_compressed_connectivity",
                       "points_ge_256"])


def check_c09(tier):
    return check_geom("C09", "c09", tier, 3000, 30000,
                      ["counts_compared", "method_mesh_edgebreaker", "method_mesh_sequential", "method_pc_kdtree",
                       "mesh_with_attribute_seam_or_split_vertex", "mesh_non_manifold_edge",
                       "mesh_with_degenerate_face", "mesh_with_isolated_point"])


def check_c10(tier):
    # (thorough decodes every stream under all 32 skip subsets: 8x the work per case)
    t0 = time.time()
    exes = ensure_built(["geom_pbt", "c05_corpus"])
    res = Result()
    run_shards(res, "C10", "geom_pbt", exes["geom_pbt"], "c10", tier, 16, 2000 if tier == "quick" else 6000)
    # stored streams: the legacy decoders read transform parameters in version-gated branches no generated stream reaches
    dirs = "%s:%s" % (os.path.join(VERIF, "corpus", "legacy"), os.path.join(VERIF, "corpus", "frozen"))
    run_shards(res, "C10", "c05_corpus", exes["c05_corpus"], "c10", tier, 16, 1,
               extra_env={"VERIF_CORPUS_DIRS": dirs, "VERIF_REPO": REPO})
    res.required_classes = ["skip_quantized", "skip_octahedral", "skip_kdtree_quantized", "method_mesh_edgebreaker",
                            "method_mesh_sequential", "method_pc_sequential", "method_pc_kdtree",
                            "att_explicit_quantization_used", "c10_corpus_octahedral", "c10_corpus_quantized",
                            "c10_corpus_version_1.1", "c10_corpus_version_2.2"]
    return finish("C10", tier, res, t0, assumptions=GEOM_ASSUME)


def check_c04(tier):
    return check_geom("C04", "c04", tier, 2500, 30000,
                      ["q_1_8", "q_9_20", "q_21_30", "method_mesh_edgebreaker", "method_mesh_sequential",
                       "method_pc_sequential", "method_pc_kdtree", "att_explicit_quantization_used",
                       "transform_q_1_8", "transform_q_9_24", "transform_q_25_30", "transform_explicit_box"])


def check_c07(tier):
    return check_geom("C07", "c07", tier, 2500, 30000,
                      ["transform_q_2_24", "transform_q_25_30", "normal_q_2_7", "normal_q_8_14", "normal_q_15_24",
                       "normal_near_axis", "normal_near_edge_or_face_centre", "normal_near_hemisphere_boundary",
                       "normal_scaled_length", "normal_degenerate_class", "event:prediction_scheme=6",
                       "event:prediction_scheme=0", "method_mesh_edgebreaker", "method_mesh_sequential", "method_pc_sequential"])


def check_c12(tier):
    return check_geom("C12", "c12", tier, 1500, 15000,
                      ["pairs_with_2plus_shared", "q_1_8", "q_9_20", "q_21_30", "pair_eb_kd", "pair_kd_eb",
                       "pair_eb_pseq", "pair_mseq_eb"])


def check_c13(tier):
    t0 = time.time()
    exe = ensure_built(["c13_corner_table"])["c13_corner_table"]
    res = Result()
    run_shards(res, "C13", "c13_corner_table", exe, "c13enum", tier, 16, 1, extra_args=["--enum"], label="enum")
    run_shards(res, "C13", "c13_corner_table", exe, "c13", tier, 16, 12000 if tier == "quick" else 100000)
    res.required_classes = ["edge_with_3plus_faces", "bowtie_or_split_vertex", "mirrored_or_duplicate_pair",
                            "degenerate_face", "attribute_corner_tables_with_seam", "enumerated_lists_with_shared_edge"]
    # the enumerated part is complete for its stated space; the random part is not - say so
    res.extra["exhaustive_part"] = "all ordered lists of 1..%d triangles over ids 0..4" % (3 if tier == "quick" else 4)
    res.exhaustive = None
    return finish("C13", tier, res, t0,
                  assumptions=["exhaustive only for the enumerated sub-space (see exhaustive_part); larger lists are sampled"])


def check_prim(prop, mode, tier, quick_cases, thorough_cases, required, assumptions):
    t0 = time.time()
    exe = ensure_built(["prim_pbt"])["prim_pbt"]
    res = Result()
    run_shards(res, prop, "prim_pbt", exe, mode + "enum", tier, 16, 1, extra_args=["--enum"], label="enum")
    run_shards(res, prop, "prim_pbt", exe, mode, tier, 16, quick_cases if tier == "quick" else thorough_cases)
    res.required_classes = required
    res.exhaustive = None
    return finish(prop, tier, res, t0, assumptions=assumptions)


def check_c16(tier):
    return check_prim("C16", "c16", tier, 60000, 400000,
                      ["wrap_cases", "octahedral_q_2_8", "octahedral_q_9_20", "octahedral_q_21_30",
                       "wrap_tuples_enumerated", "octahedral_pairs_enumerated"],
                      ["exhaustive only for the enumerated sub-spaces named in the rule; 32-bit ranges and q >= 6/7 are sampled",
                       "the set of canonical octahedral coordinates is defined by OctahedronToolBox::CanonicalizeOctahedralCoords (fixed points)"])


def check_c17(tier):
    return check_prim("C17", "c17", tier, 12000, 80000,
                      ["op_scalar", "op_bytes", "op_varint", "op_bit_region", "coder_0", "coder_1", "coder_2", "coder_3",
                       "coder_4", "coder_bulk_run", "varint_values_enumerated_uint16", "varint_values_enumerated_int16"],
                      ["bit-mode regions respect the caller contract sum(nbits) <= required_bits",
                       "32/64-bit varints are boundary-biased samples, 8/16-bit ones exhaustive"])


def check_simple(prop, hname, mode, tier, quick_cases, thorough_cases, required, assumptions, extra_env=None):
    t0 = time.time()
    exe = ensure_built([hname])[hname]
    res = Result()
    run_shards(res, prop, hname, exe, mode, tier, 16, quick_cases if tier == "quick" else thorough_cases,
               extra_env=extra_env)
    res.required_classes = required
    return finish(prop, tier, res, t0, assumptions=assumptions)


def check_c11(tier):
    return check_simple("C11", "c11_metadata", "c11", tier, 1200, 25000,
                        ["geometry_pc_sequential", "geometry_pc_kdtree", "geometry_mesh_sequential",
                         "geometry_mesh_edgebreaker", "with_attribute_metadata", "encode_error_with_name_over_255",
                         "depth_3", "depth_8"],
                        ["the geometry carrying the metadata is a fixed 6-point mesh / point cloud: the metadata block is "
                         "independent of the geometry payload"])


def check_c20(tier):
    return check_simple("C20", "c20_animation", "c20", tier, 1500, 15000,
                        ["quantized_tracks", "raw_float_tracks", "integer_tracks", "timestamps_first",
                         "timestamps_between", "timestamps_last", "tracks_0", "tracks_8", "builtin_compression_off_raw_values"],
                        ["32-bit integer tracks whose values span INT32_MAX or more may be refused by the encoder "
                         "(counted as encode errors)"])


def check_c14(tier):
    return check_simple("C14", "c14_builders", "c14", tier, 2500, 3000,
                        ["builder_finalized", "direct_dedup_ok", "cleanup_mask_7", "cleanup_mask_1", "cleanup_mask_2",
                         "cleanup_mask_4", "cleanup_removed_faces", "strips_restart_checked", "strips_degenerate_checked",
                         "pc_builder_dedup", "pc_builder_nodedup", "special_float_patterns"],
                        ["strip output is taken through std::back_inserter (StoreStrip receives the iterator by value)",
                         "in degenerate-triangle mode faces with a repeated point id cannot be told from stitching and are "
                         "not required in the output"],
                        # the encoder-related exclusions of the shared generator do not apply to these utilities
                        extra_env={"VERIF_OPEN": ""})


def check_c15(tier):
    t0 = time.time()
    exes = ensure_built(["c15_io", "draco_encoder", "draco_decoder"])
    exe = exes["c15_io"]
    res = Result()
    run_shards(res, "C15", "c15_io", exe, "c15", tier, 16, 3000 if tier == "quick" else 20000)
    tmpd = tempfile.mkdtemp(prefix="verif_c15_")
    try:
        run_shards(res, "C15", "c15_io", exe, "c15cli", tier, 16, 60 if tier == "quick" else 600,
                   extra_env={"VERIF_TOOLS_DIR": os.path.dirname(exes["draco_encoder"]), "TMPDIR": tmpd,
                              "ASAN_OPTIONS": SAN_ENV["ASAN_OPTIONS"].replace("detect_leaks=1", "detect_leaks=0")})
    finally:
        shutil.rmtree(tmpd, ignore_errors=True)
    res.required_classes = ["ply_mesh_checked", "ply_cloud_checked", "stl_checked", "obj_mesh_checked", "obj_cloud_checked",
                            "cli_obj_pipelines", "cli_ply_pipelines"]
    return finish("C15", tier, res, t0,
                  assumptions=["faces and corners of the in-process OBJ / PLY round trips correspond in order (the readers keep "
                               "file order); the command-line pipelines are compared as multisets",
                               "the command-line tools are the repository's tools built -O2 without sanitizers"])


def gen_seed_streams(prop, tier):
    """Regenerates small valid streams with the current encoder (one per encoder code-path class and worker)."""
    exe = ensure_built(["geom_pbt"])["geom_pbt"]
    d = os.path.join(vbuild.BUILD, "seeds_%s_%d" % (prop, os.getpid()))
    shutil.rmtree(d, ignore_errors=True)
    os.makedirs(d)

    def one(i):
        env = dict(os.environ)
        env.update(SAN_ENV)
        env.update({"VERIF_MODE": "gencorpus", "VERIF_PROP": prop, "VERIF_CORPUS_OUT": d, "VERIF_TIER": "quick",
                    "VERIF_CORPUS_PER_CLASS": "1", "VERIF_OUT": "",
                    "VERIF_OPEN": ",".join(f["id"] for f in open_findings()),
                    "RC_PARAMS": "seed=%d max_success=%d" % (derive_seed(SEED, "seeds", i), 250 if tier == "quick" else 1500)})
        subprocess.run([exe], env=env, stdout=subprocess.DEVNULL, stderr=subprocess.DEVNULL, timeout=1800)

    with ThreadPoolExecutor(16) as ex:
        list(ex.map(one, range(16)))
    # File names start with a hash of the class key (encoder code path + attribute-connectivity structure). Workers
    # overlap in the classes they cover: per class the smallest stream is kept. The `cap` classes with the smallest
    # streams are enumerated densely; the representatives of the remaining classes (up to `light_cap`) go to a second
    # directory and get the light single-byte enumeration only, so that every structure class is visited.
    by_class = {}
    for f in os.listdir(d):
        key = f[1:9]
        sz = os.path.getsize(os.path.join(d, f))
        if key not in by_class or (sz, f) < by_class[key]:
            by_class[key] = (sz, f)
    # (streams converted to the legacy 2.2 kd-tree layout, names l*, are few and always belong to the dense set)
    reps = sorted(by_class.values(), key=lambda x: (not x[1].startswith("l"), x[0], x[1]))
    cap = 260 if tier == "quick" else 2000
    light_cap = 700 if tier == "quick" else 4000
    keep = set(f for _, f in reps[:cap])
    light = set(f for _, f in reps[cap:cap + light_cap])
    dl = d + "_light"
    shutil.rmtree(dl, ignore_errors=True)
    os.makedirs(dl)
    for f in os.listdir(d):
        if f in light:
            os.replace(os.path.join(d, f), os.path.join(dl, f))
        elif f not in keep:
            os.remove(os.path.join(d, f))
    return d, dl, len(by_class)


def run_fuzz(res, prop, exe, seed_dirs, seconds, workers, empty_workers, tier):
    """libFuzzer campaigns: `workers` processes on the seed corpus + `empty_workers` from an empty corpus."""
    base = tempfile.mkdtemp(prefix="fuzz_%s_" % prop, dir=vbuild.BUILD)
    art = os.path.join(base, "artifacts")
    os.makedirs(art)

    def one(i):
        out = os.path.join(base, "corpus%d" % i)
        os.makedirs(out)
        env = dict(os.environ)
        env.update(SAN_ENV)
        env["VERIF_PROP"] = prop
        env["VERIF_OUT"] = os.path.join(base, "w%d.json" % i)
        cmd = [exe, out] + (seed_dirs if i < workers else []) + [
            "-max_total_time=%d" % seconds, "-timeout=25", "-rss_limit_mb=3000", "-max_len=16384",
            "-seed=%d" % derive_seed(SEED, prop, "fuzz", i), "-print_final_stats=1",
            "-artifact_prefix=%s/w%d-" % (art, i)]
        log = os.path.join(base, "w%d.log" % i)
        with open(log, "w") as lf:
            try:
                subprocess.run(cmd, env=env, stdout=lf, stderr=subprocess.STDOUT, timeout=seconds + 600)
            except subprocess.TimeoutExpired:
                pass
        return i, log, env["VERIF_OUT"]

    n = workers + empty_workers
    with ThreadPoolExecutor(n) as ex:
        outs = list(ex.map(one, range(n)))
    execs = 0
    cov = 0
    for i, log, statf in outs:
        txt = open(log, errors="replace").read()
        for line in txt.splitlines():
            if line.startswith("stat::number_of_executed_units:"):
                execs += int(line.split()[-1])
        covs = [int(m) for m in __import__("re").findall(r" cov: (\d+)", txt)]
        if covs:
            cov = max(cov, covs[-1])
        try:
            d = json.load(open(statf))
            for k, v in d.get("classes", {}).items():
                res.classes["fuzz_" + k] = res.classes.get("fuzz_" + k, 0) + v
            res.nontrivial_extra = getattr(res, "nontrivial_extra", 0)
        except Exception:
            pass
    res.evaluations += execs
    res.classes["fuzz_executions"] = res.classes.get("fuzz_executions", 0) + execs
    res.classes["fuzz_covered_edges_best_worker"] = cov
    res.classes["fuzz_workers_seeded"] = workers
    res.classes["fuzz_workers_empty_corpus"] = empty_workers
    arts = sorted(glob.glob(os.path.join(art, "*")))
    os.makedirs(os.path.join(REPLAY, "tmp"), exist_ok=True)
    for a in arts:
        bn = os.path.basename(a)
        kind = bn.split("-")[1] if "-" in bn else "x"
        if kind not in ("crash", "leak", "timeout"):
            res.classes["fuzz_artifacts_ignored_" + kind] = res.classes.get("fuzz_artifacts_ignored_" + kind, 0) + 1
            continue
        dst = os.path.join(REPLAY, "tmp", "%s-%s-%s.bin" % (prop, "hang" if kind == "timeout" else "crash", bn.split("-")[-1][:16]))
        shutil.copy(a, dst)
        res.failures.append(("dec_enum", None, "x", dst, "libFuzzer artifact " + bn))
    shutil.rmtree(base, ignore_errors=True)


def check_dec(prop, tier):
    t0 = time.time()
    exes = ensure_built(["geom_pbt", "dec_enum", "dec_fuzz", "dec_tamper"])
    res = Result()
    seeds, light_seeds, nclasses = gen_seed_streams(prop, tier)
    sys.stderr.write("[%s] seed streams regenerated at %.0fs\n" % (prop, time.time() - t0))
    try:
        nseeds = len(os.listdir(seeds))
        nlight = len(os.listdir(light_seeds))
        seed_dirs = "%s:%s" % (seeds, os.path.join(VERIF, "corpus", "legacy"))
        # 64 shards on 16 cores: seeds differ a lot in cost, finer shards even the load out
        run_shards(res, prop, "dec_enum", exes["dec_enum"], "enum", tier, 64, 1,
                   extra_env={"VERIF_SEED_DIRS": seed_dirs, "VERIF_LIGHT_SEED_DIRS": light_seeds, "VERIF_SEED": str(SEED)},
                   timeout=7200)
        sys.stderr.write("[%s] enumeration done at %.0fs\n" % (prop, time.time() - t0))
        if not res.failures:
            # semantic tampering (entropy-coded single-value corruptions of small geometries)
            run_shards(res, prop, "dec_tamper", exes["dec_tamper"], "tamper", tier, 16, 25 if tier == "quick" else 500)
            sys.stderr.write("[%s] semantic tampering done at %.0fs\n" % (prop, time.time() - t0))
        if not res.failures:
            run_fuzz(res, prop, exes["dec_fuzz"], [seeds, light_seeds, os.path.join(VERIF, "corpus", "legacy")],
                     40 if tier == "quick" else 1200, 12, 4, tier)
    finally:
        shutil.rmtree(seeds, ignore_errors=True)
        shutil.rmtree(light_seeds, ignore_errors=True)
    sys.stderr.write("[%s] fuzzing done at %.0fs\n" % (prop, time.time() - t0))
    for i, f in enumerate(res.failures):
        if f[1] is None:
            res.failures[i] = (f[0], exes["dec_enum"], f[2], f[3], f[4])
    res.classes["regenerated_seed_streams"] = nseeds
    res.classes["regenerated_light_seed_streams"] = nlight
    res.classes["regenerated_seed_classes"] = nclasses
    res.required_classes = ["class_truncation", "class_byte_pattern", "class_u32_pattern", "class_varint_pattern",
                            "class_header_rewrite", "class_splice", "class_multi_site", "class_count_u32",
                            "class_count_varint", "fuzz_executions", "tampered_symbol", "tampered_traversal_symbol",
                            "tampered_bit"] if not (prop == "C18" and tier == "quick") else \
        ["class_count_u32", "class_count_varint", "fuzz_executions", "tampered_symbol", "tampered_traversal_symbol",
         "tampered_bit"]
    return finish(prop, tier, res, t0, level="fault_enumeration",
                  assumptions=["single-site corruptions are complete only for the listed patterns and for offsets below the dense "
                               "bound of long seeds; multi-site corruptions, splices and libFuzzer executions are samples",
                               "semantic tampering (one traversal symbol / entropy-coded symbol / flag bit altered before entropy "
                               "coding) is enumerated per case up to a budget of 240 (thorough 1500) tampered encodes, sampled beyond",
                               "C18 constants: K0 = 48 MiB fixed overhead, K = 256 bytes per unit of (input length + declared "
                               "points/faces/components/symbols); DRACO_DCHECKs are compiled out as in every release build",
                               "hangs: a decode that exceeds the 25 s libFuzzer limit / the watchdog is re-run alone three times "
                               "with a 180 s limit before it is reported"])


def check_c02(tier):
    return check_dec("C02", tier)


def check_c03(tier):
    return check_dec("C03", tier)


def check_c18(tier):
    return check_dec("C18", tier)


def check_c05(tier):
    t0 = time.time()
    exe = ensure_built(["c05_corpus"])["c05_corpus"]
    res = Result()
    dirs = "%s:%s" % (os.path.join(VERIF, "corpus", "legacy"), os.path.join(VERIF, "corpus", "frozen"))
    run_shards(res, "C05", "c05_corpus", exe, "c05", tier, 16, 1,
               extra_env={"VERIF_CORPUS_DIRS": dirs, "VERIF_GOLDEN": os.path.join(VERIF, "corpus", "golden.txt"),
                          "VERIF_REPO": REPO})
    res.required_classes = ["version_1.1", "version_1.2", "version_2.0", "version_2.1", "version_2.2", "version_2.3",
                            "mesh_edgebreaker", "mesh_sequential", "pc_kdtree", "pc_sequential", "version_gate_checks",
                            "legacy_streams_checked_against_test_nm_obj"]
    return finish("C05", tier, res, t0,
                  assumptions=["decides the present tree against frozen bytes; it cannot quantify over future histories",
                               "goldens of the frozen corpus are the decode of the tree revision that froze them (after the "
                               "recorded fixes); the legacy test_nm.obj streams are additionally checked against the source OBJ",
                               "the encoder's bytes are not compared: an encoder improvement is not a violation"])


def check_c06(tier):
    t0 = time.time()
    exes = ensure_built(["c06_history", "c06_history_plain"])
    res = Result()
    run_shards(res, "C06", "c06_history", exes["c06_history"], "c06", tier, 16, 1200 if tier == "quick" else 6000)
    # cross-process part: the same fixed-seed case list under different address-space layouts / allocator fills
    ncases = 300 if tier == "quick" else 3000
    variants = [("default", [], {}), ("no_aslr", ["setarch", os.uname().machine, "-R"], {}),
                ("malloc_perturb_85", [], {"MALLOC_PERTURB_": "85"}), ("malloc_perturb_170", [], {"MALLOC_PERTURB_": "170"}),
                ("malloc_perturb_255", [], {"MALLOC_PERTURB_": "255"}), ("default_again", [], {})]
    if tier == "thorough" and shutil.which("valgrind"):
        variants.append(("valgrind_memcheck", ["valgrind", "-q", "--error-exitcode=97"], {}))

    def one(v):
        name, prefix, extra = v
        env = dict(os.environ)
        env.update(extra)
        env.update({"VERIF_MODE": "c06digest", "VERIF_PROP": "C06", "VERIF_OUT": "", "VERIF_OPEN": ",".join(f["id"] for f in open_findings()),
                    "RC_PARAMS": "seed=%d max_success=%d" % (derive_seed(SEED, "C06", "digest"), ncases if name != "valgrind_memcheck" else 200)})
        try:
            r = subprocess.run(prefix + [exes["c06_history_plain"]], env=env, capture_output=True, text=True, errors="replace", timeout=7200)
        except (subprocess.TimeoutExpired, OSError) as e:
            return name, None, str(e)
        return name, [l for l in r.stdout.splitlines() if l.startswith("DIGEST ")], "rc=%d %s" % (r.returncode, r.stderr[-500:])

    with ThreadPoolExecutor(len(variants)) as ex:
        outs = list(ex.map(one, variants))
    base = outs[0][1]
    mismatch = None
    for name, lines, info in outs:
        if lines is None or not lines:
            res.extra.setdefault("cross_process_variants_unavailable", []).append("%s: %s" % (name, info))
            continue
        res.classes["cross_process_variant_" + name] = len(lines)
        res.evaluations += len(lines)
        if name == "valgrind_memcheck":
            if "rc=97" in info:
                mismatch = (name, "valgrind memcheck reports an error (uninitialised value reaching the output?): " + info)
            if base[:len(lines)] != lines:
                mismatch = (name, "digest list differs under valgrind")
            continue
        if lines != base:
            first = next((i for i, (a, b) in enumerate(zip(base, lines)) if a != b), min(len(base), len(lines)))
            mismatch = (name, "digest list differs from the default run at case %d: %s vs %s" % (
                first, base[first] if first < len(base) else "-", lines[first] if first < len(lines) else "-"))
    if mismatch:
        os.makedirs(REPLAY, exist_ok=True)
        path = os.path.join(REPLAY, "C06-crossprocess-%s.txt" % mismatch[0])
        with open(path, "w") as f:
            f.write(mismatch[1] + "\n")
        # confirm: run the two variants again
        again = [one(variants[0]), one([v for v in variants if v[0] == mismatch[0]][0])]
        if again[0][1] != again[1][1] or "valgrind" in mismatch[0]:
            print("VIOLATION property=C06 replay=%s" % path)
            print("  " + mismatch[1][:400])
            res.extra["cross_process_mismatch"] = mismatch[1][:400]
            write_evidence("C06", tier, "exploration", dict(evaluations=res.evaluations, distinct_nontrivial=len(res.nontrivial),
                           rule=" | ".join(res.rules), samples=res.samples[:4], classes=res.classes), time.time() - t0, 1, [])
            return 1
    res.required_classes = ["encoder_encodes", "expert_encodes", "decoder_decodes", "trailing_byte_decodes",
                            "cross_process_variant_no_aslr", "cross_process_variant_malloc_perturb_255"]
    return finish("C06", tier, res, t0,
                  assumptions=["cross-process determinism is sampled on %d fixed-seed cases under ASLR off/on and three "
                               "MALLOC_PERTURB_ fills (thorough: plus valgrind memcheck on 200 cases)" % ncases,
                               "MSan is not usable in this image (no instrumented libstdc++); uninitialised bytes are attacked "
                               "through allocator perturbation and valgrind only"])


def check_c19(tier):
    t0 = time.time()
    exes = ensure_built(["c19_threads_tsan", "c19_threads_asan"])
    res = Result()
    # few processes: each round runs up to 16 threads of its own
    run_shards(res, "C19", "c19_threads_tsan", exes["c19_threads_tsan"], "c19", tier, 4, 40 if tier == "quick" else 750, label="tsan",
               extra_env={"VERIF_PRESAVE": "1"})
    res.classes["rounds_under_tsan"] = res.evaluations
    ev0 = res.evaluations
    run_shards(res, "C19", "c19_threads_asan", exes["c19_threads_asan"], "c19", tier, 4, 60 if tier == "quick" else 750, label="asan")
    res.classes["rounds_under_asan"] = res.evaluations - ev0
    res.required_classes = ["threads_2", "threads_4", "threads_8", "threads_16", "rounds_under_tsan", "rounds_under_asan"]
    return finish("C19", tier, res, t0,
                  assumptions=["ThreadSanitizer's happens-before analysis flags unsynchronised shared accesses independently of the "
                               "interleaving that actually occurred; a correctly locked global that leaks state between calls is "
                               "visible only through the result comparison under a lucky schedule",
                               "schedules are explored, not enumerated"])


CHECKS = {
    "C19": check_c19,
    "C07": check_c07,
    "C06": check_c06,
    "C05": check_c05,
    "C02": check_c02,
    "C03": check_c03,
    "C18": check_c18,
    "C15": check_c15,
    "C14": check_c14,
    "C20": check_c20,
    "C11": check_c11,
    "C16": check_c16,
    "C17": check_c17,
    "C13": check_c13,
    "C04": check_c04,
    "C10": check_c10,
    "C12": check_c12,
    "C01": check_c01,
    "C08": check_c08,
    "C09": check_c09,
}

REPLAYERS = {
    # property -> list of (harness, default mode)
    "C11": [("c11_metadata", "c11")],
    "C20": [("c20_animation", "c20")],
    "C14": [("c14_builders", "c14")],
    "C15": [("c15_io", "c15")],
    "C05": [("c05_corpus", "c05")],
    "C06": [("c06_history", "c06")],
    "C19": [("c19_threads_tsan", "c19")],
    "C02": [("dec_enum", "x")],
    "C03": [("dec_enum", "x")],
    "C18": [("dec_enum", "x")],
    "C13": [("c13_corner_table", "c13")],
    "C16": [("prim_pbt", "c16")],
    "C17": [("prim_pbt", "c17")],
    "C01": [("geom_pbt", "c01")],
    "C04": [("geom_pbt", "c04")],
    "C07": [("geom_pbt", "c07")],
    "C10": [("geom_pbt", "c10"), ("c05_corpus", "c10")],
    "C12": [("geom_pbt", "c12")],
    "C08": [("c08_symbols", "c08")],
    "C09": [("geom_pbt", "c09")],
}


def run_check(prop, tier):
    if prop not in CHECKS:
        sys.stderr.write("no check registered for %s\n" % prop)
        return 2
    return CHECKS[prop](tier)


def run_replay(prop, path):
    txt = open(path).read()
    try:
        meta = json.loads(txt)
    except Exception:
        meta = {}
    mode = meta.get("mode", "")
    for hname, dmode in REPLAYERS.get(prop, []):
        exe = ensure_built([hname])[hname]
        ok, out = replay_once(exe, mode or dmode, path)
        sys.stdout.write(out)
        if ok is False:
            print("VIOLATION property=%s replay=%s" % (prop, path))
            return 1
        return 0
    return 2
